(* Lemmas about the scripted handler and one attempt of Buffer.ServeHTTP:
   - the response side of an invocation depends on its own events only (abstraction [bw_run]);
   - the request side: what is read is a function of the invocation's own events and the whole body;
   - writes through the request copy stay outside the original heap objects;
   - named temporary files: every file created in an attempt is removed by that attempt's deferred calls. *)
From Oxy Require Import Base.Prelude Model.Multibuf Model.Buffer Proofs.BufferProofsA.
Open Scope Z_scope.

(* ------------------------------------------------------------------------------------------------ *)
(* response side, abstractly: no file system, no heap, no request                                    *)
(* ------------------------------------------------------------------------------------------------ *)
Record abw := { a_code : Z; a_hdr : hmap; a_wrote : bool; a_werr : bool; a_hij : bool; a_data : bytes }.
Definition abs0 : abw := {| a_code := 0; a_hdr := []; a_wrote := false; a_werr := false; a_hij := false; a_data := [] |}.

Definition abs_step (maxR : Z) (a : abw) (e : event) : abw :=
  match e with
  | ESetHeader k v => {| a_code := a_code a; a_hdr := hset k v (a_hdr a); a_wrote := a_wrote a; a_werr := a_werr a;
                         a_hij := a_hij a; a_data := a_data a |}
  | EWriteHeader c => {| a_code := c; a_hdr := a_hdr a; a_wrote := a_wrote a; a_werr := a_werr a;
                         a_hij := a_hij a; a_data := a_data a |}
  | EWrite id n =>
      let p := gen_body id n in
      if (0 <? maxR) && (maxR <? blen p + blen (a_data a))
      then {| a_code := a_code a; a_hdr := a_hdr a; a_wrote := true; a_werr := true; a_hij := a_hij a; a_data := a_data a |}
      else {| a_code := a_code a; a_hdr := a_hdr a; a_wrote := true; a_werr := a_werr a; a_hij := a_hij a;
              a_data := a_data a ++ p |}
  | EHijack => {| a_code := a_code a; a_hdr := a_hdr a; a_wrote := a_wrote a; a_werr := a_werr a;
                  a_hij := true; a_data := a_data a |}
  | _ => a
  end.

Fixpoint bw_run (maxR : Z) (a : abw) (evs : list event) : abw :=
  match evs with
  | [] => a
  | e :: r => if a_hij a then a else bw_run maxR (abs_step maxR a e) r
  end.

(* the bufferWriter of the model refines the abstract one *)
Record brel (base : list Z) (maxR : Z) (b : bwriter) (fs : fsT) (a : abw) : Prop := {
  br_code : b_code b = a_code a;
  br_hdr : b_hdr b = a_hdr a;
  br_wrote : b_wrote b = a_wrote a;
  br_werr : b_werr b = a_werr a;
  br_hij : b_hij b = a_hij a;
  br_max : w_maxB (b_w b) = maxR;
  br_w : winv base (b_w b) fs (a_data a);
  br_started : a_wrote a = true -> a_werr a = false -> w_st (b_w b) <> WInit
}.

Lemma brel_step base maxR rq s a e :
  brel base maxR (h_bw s) (h_fs s) a ->
  brel base maxR (h_bw (ev_step rq s e)) (h_fs (ev_step rq s e)) (abs_step maxR a e).
Proof. intros [H1 H2 H3 H4 H5 H6 H7 H8]. destruct e; cbn [ev_step abs_step].
  - constructor; cbn; auto. rewrite H2; reflexivity.
  - constructor; cbn; auto.
  - unfold bw_write.
    pose proof (w_write_spec base (b_w (h_bw s)) (gen_body id n) (h_fs s) (a_data a) H7) as W.
    cbn zeta in W. rewrite H6 in W. destruct W as (Wok & Wov & Wnov).
    destruct (w_write (b_w (h_bw s)) (gen_body id n) (h_fs s)) as [[w' fs'] ok] eqn:E. cbn [fst snd] in *.
    destruct ((0 <? maxR) && (maxR <? blen (gen_body id n) + blen (a_data a))) eqn:Eo.
    + specialize (Wov eq_refl). inversion Wov; subst w' fs'. cbn in Wok. subst ok.
      constructor; cbn; auto. { rewrite orb_true_r; reflexivity. } intros _ Hc; discriminate.
    + destruct (Wnov eq_refl) as (Wi & Wst). cbn in Wok. subst ok.
      constructor; cbn; auto.
      * rewrite orb_false_r; exact H4.
      * pose proof (w_write_opts (b_w (h_bw s)) (gen_body id n) (h_fs s)) as O. rewrite E in O. cbn in O.
        destruct O as [_ O]. rewrite O. exact H6.
  - destruct (h_body s) as [r|]; [|constructor; auto].
    destruct (mr_read k r) as [d r']. constructor; cbn; auto.
  - constructor; cbn; auto.
  - constructor; cbn; auto.
  - constructor; cbn; auto.
  - constructor; auto.
Qed.

Lemma run_events_abs base maxR rq evs : forall s a,
  brel base maxR (h_bw s) (h_fs s) a ->
  brel base maxR (h_bw (run_events rq s evs)) (h_fs (run_events rq s evs)) (bw_run maxR a evs).
Proof. induction evs as [|e r IH]; intros s a H; cbn [run_events bw_run]; [exact H|].
  rewrite (br_hij _ _ _ _ _ H). destruct (a_hij a); [exact H|]. apply IH, brel_step, H. Qed.

(* ------------------------------------------------------------------------------------------------ *)
(* generic invariant principle for the handler                                                        *)
(* ------------------------------------------------------------------------------------------------ *)
Lemma run_events_inv (P : hst -> Prop) rq :
  (forall s e, P s -> P (ev_step rq s e)) -> forall evs s, P s -> P (run_events rq s evs).
Proof. intros Hs evs; induction evs as [|e r IH]; intros s H; cbn; [exact H|].
  destruct (b_hij (h_bw s)); [exact H|]. apply IH, Hs, H. Qed.

Lemma run_events_hij rq evs s : b_hij (h_bw s) = true -> run_events rq s evs = s.
Proof. intros H; destruct evs; cbn; [reflexivity|]. rewrite H; reflexivity. Qed.

(* ------------------------------------------------------------------------------------------------ *)
(* request side: what an invocation reads                                                             *)
(* ------------------------------------------------------------------------------------------------ *)
Fixpoint read_spec (evs : list event) (rest : bytes) : bytes :=
  match evs with
  | [] => []
  | EHijack :: _ => []
  | EReadBody k :: r =>
      (if k <? 0 then rest else ztake k rest) ++ read_spec r (if k <? 0 then [] else zdrop k rest)
  | _ :: r => read_spec r rest
  end.

Lemma read_spec_nil evs : read_spec evs [] = [].
Proof. induction evs as [|e r IH]; cbn; [reflexivity|]. destruct e; auto.
  destruct (k <? 0); cbn; exact IH. Qed.

(* an invocation reads a prefix of the body, starting at its first byte *)
Lemma read_spec_prefix evs : forall body, exists tail, body = read_spec evs body ++ tail.
Proof. induction evs as [|e r IH]; intros body; cbn [read_spec]; [exists body; reflexivity|].
  destruct e; try apply IH; try (exists body; reflexivity).
  destruct (k <? 0).
  - exists []. rewrite read_spec_nil, !app_nil_r. reflexivity.
  - destruct (IH (zdrop k body)) as [t Ht]. exists t. rewrite <- app_assoc, <- Ht, ztake_zdrop. reflexivity. Qed.

(* reading to EOF (before any hijack) delivers the whole body *)
Fixpoint reads_all (evs : list event) : bool :=
  match evs with
  | [] => false
  | EHijack :: _ => false
  | EReadBody k :: r => (k <? 0) || reads_all r
  | _ :: r => reads_all r
  end.
Lemma read_spec_all evs : forall body, reads_all evs = true -> read_spec evs body = body.
Proof. induction evs as [|e r IH]; intros body H; cbn in *; [discriminate|].
  destruct e; try (apply IH; exact H); try discriminate.
  destruct (k <? 0); cbn in H.
  - rewrite read_spec_nil, app_nil_r. reflexivity.
  - rewrite (IH _ H). apply ztake_zdrop. Qed.

Lemma run_events_read_some rq evs : forall s r,
  h_body s = Some r -> b_hij (h_bw s) = false ->
  h_read (run_events rq s evs) = h_read s ++ read_spec evs (r_rest r) /\
  exists r', h_body (run_events rq s evs) = Some r' /\ r_all r' = r_all r /\ r_clean r' = r_clean r.
Proof. induction evs as [|e t IH]; intros s r Hb Hh.
  - cbn. rewrite app_nil_r. split; [reflexivity|]. exists r; auto.
  - cbn [run_events]. rewrite Hh.
    assert (Hsimple : forall s1, h_body s1 = Some r -> b_hij (h_bw s1) = false -> h_read s1 = h_read s ->
              h_read (run_events rq s1 t) = h_read s ++ read_spec t (r_rest r) /\
              exists r', h_body (run_events rq s1 t) = Some r' /\ r_all r' = r_all r /\ r_clean r' = r_clean r).
    { intros s1 B1 B2 B3. destruct (IH s1 r B1 B2) as (A & B). rewrite B3 in A. auto. }
    destruct e as [k v|c|id n|k|k v|u| |]; cbn [read_spec]; try (apply Hsimple; cbn; auto; fail).
    + (* EWrite *) apply Hsimple; cbn [ev_step]; destruct (bw_write (h_bw s) (gen_body id n) (h_fs s)) as [b' fs'] eqn:E; cbn; auto.
      unfold bw_write in E. destruct (w_write _ _ _) as [[w' f'] ok]. inversion E; subst. cbn. exact Hh.
    + (* EReadBody *) cbn [ev_step]. rewrite Hb. unfold mr_read.
      match goal with |- context [run_events rq ?S t] => set (s1 := S) end.
      destruct (IH s1 {| r_mem := r_mem r; r_file := r_file r; r_len := r_len r;
                         r_rest := if k <? 0 then [] else zdrop k (r_rest r); r_clean := r_clean r |}) as (A & r' & B1 & B2 & B3).
      * reflexivity.
      * exact Hh.
      * split.
        -- rewrite A. subst s1. cbn. rewrite <- app_assoc. reflexivity.
        -- exists r'. auto.
    + (* EHijack *) rewrite run_events_hij by reflexivity. cbn. rewrite app_nil_r. split; [reflexivity|]. exists r; auto.
Qed.

Lemma run_events_read_none rq evs : forall s,
  h_body s = None -> h_read (run_events rq s evs) = h_read s /\ h_body (run_events rq s evs) = None.
Proof. intros s H. apply (run_events_inv (fun x => h_read x = h_read s /\ h_body x = None)); [|auto].
  intros x e [A B]. destruct e; cbn [ev_step]; try (split; cbn; assumption).
  - destruct (bw_write _ _ _); cbn; auto.
  - rewrite B. auto. Qed.

(* ------------------------------------------------------------------------------------------------ *)
(* heap: writes through fresh locations leave older objects alone                                     *)
(* ------------------------------------------------------------------------------------------------ *)
Lemma hwrite_length hp l o : length (hwrite hp l o) = length hp.
Proof. revert l; induction hp as [|x r IH]; intros l; cbn; [reflexivity|]. destruct l; cbn; auto. Qed.

Lemma hwrite_firstn hp l o n : (n <= l)%nat -> firstn n (hwrite hp l o) = firstn n hp.
Proof. revert l n; induction hp as [|x r IH]; intros l n H; cbn; [reflexivity|].
  destruct l; [assert (n = 0%nat) as -> by lia; reflexivity|].
  destruct n; cbn; [reflexivity|]. f_equal. apply IH. lia. Qed.

Lemma hread_firstn hp n l : (l < n)%nat -> hread (firstn n hp) l = hread hp l.
Proof. unfold hread. revert n l; induction hp as [|x r IH]; intros n l H.
  - rewrite firstn_nil. reflexivity.
  - destruct n; [lia|]. cbn [firstn]. destruct l; cbn; [reflexivity|]. apply IH. lia. Qed.

Lemma hread_app_new hp o : hread (hp ++ [o]) (length hp) = o.
Proof. unfold hread. rewrite app_nth2 by lia. rewrite Nat.sub_diag. reflexivity. Qed.
Lemma hread_app_old hp o l : (l < length hp)%nat -> hread (hp ++ [o]) l = hread hp l.
Proof. intros H. unfold hread. apply app_nth1, H. Qed.
Lemma firstn_app_old {A} (hp : list A) o n : (n <= length hp)%nat -> firstn n (hp ++ [o]) = firstn n hp.
Proof. intros H. rewrite firstn_app. replace (n - length hp)%nat with 0%nat by lia. cbn. apply app_nil_r. Qed.

Lemma run_events_heap rq evs s n :
  (n <= q_url rq)%nat -> (n <= q_hdr rq)%nat ->
  firstn n (h_heap (run_events rq s evs)) = firstn n (h_heap s) /\ length (h_heap (run_events rq s evs)) = length (h_heap s).
Proof. intros Hu Hh.
  apply (run_events_inv (fun x => firstn n (h_heap x) = firstn n (h_heap s) /\ length (h_heap x) = length (h_heap s))); [|auto].
  intros x e [A B]. destruct e; cbn [ev_step]; try (split; cbn; assumption).
  - destruct (bw_write _ _ _); cbn; auto.
  - destruct (h_body x) as [r|]; [destruct (mr_read k r)|]; cbn; auto.
  - cbn. rewrite hwrite_firstn, hwrite_length by exact Hh. auto.
  - cbn. rewrite hwrite_firstn, hwrite_length by exact Hu. auto. Qed.

(* copyRequest: fresh objects holding copies; older objects untouched *)
Lemma copyRequest_spec hp rq size :
  (q_url rq < length hp)%nat -> (q_hdr rq < length hp)%nat ->
  let '(hp', o) := copyRequest hp rq size in
  length hp' = S (S (length hp)) /\ firstn (length hp) hp' = hp /\
  q_method o = q_method rq /\ q_cl o = size /\ q_te o = [] /\
  (length hp <= q_url o < length hp')%nat /\ (length hp <= q_hdr o < length hp')%nat /\
  hread hp' (q_url o) = OUrl (as_url (hread hp (q_url rq))) /\
  hread hp' (q_hdr o) = OHdr (as_hdr (hread hp (q_hdr rq))).
Proof. intros Hu Hh. unfold copyRequest, halloc. cbn.
  rewrite !app_length; cbn. split; [lia|]. split.
  { rewrite <- app_assoc. rewrite firstn_app, Nat.sub_diag, firstn_all. cbn. apply app_nil_r. }
  split; [reflexivity|]. split; [reflexivity|]. split; [reflexivity|]. split; [lia|]. split; [lia|]. split.
  - rewrite hread_app_old by (rewrite app_length; cbn; lia). apply hread_app_new.
  - replace (length hp + 1)%nat with (length (hp ++ [OUrl (as_url (hread hp (q_url rq)))])) by (rewrite app_length; cbn; lia).
    rewrite hread_app_new. rewrite hread_app_old by exact Hh. reflexivity. Qed.

(* ------------------------------------------------------------------------------------------------ *)
(* deferred calls and named files                                                                     *)
(* ------------------------------------------------------------------------------------------------ *)
Lemma mr_close_names r fs fs' : fnames fs = fnames fs' -> fnames (mr_close r fs) = fnames (mr_close r fs').
Proof. intros H. unfold mr_close. destruct (r_clean r); [|exact H]. unfold fs_remove; cbn. rewrite H; reflexivity. Qed.

Lemma run_defer_names d fs fs' : fnames fs = fnames fs' -> fnames (run_defer d fs) = fnames (run_defer d fs').
Proof. intros H. destruct d; cbn [run_defer].
  - destruct (w_reader w) as [w' [r|]]; unfold w_close; [apply mr_close_names, H|exact H].
  - apply mr_close_names, H. Qed.

Lemma run_defers_names ds : forall fs fs', fnames fs = fnames fs' -> fnames (run_defers ds fs) = fnames (run_defers ds fs').
Proof. unfold run_defers. induction ds as [|d r IH]; intros fs fs' H; cbn; [exact H|]. apply IH, run_defer_names, H. Qed.

Lemma run_defers_app a b fs : run_defers (a ++ b) fs = run_defers b (run_defers a fs).
Proof. unfold run_defers. apply fold_left_app. Qed.

(* closing a bufferWriter whose writer still owns its data removes the spill file, if any *)
Lemma close_bw_names base w fs data fs' : winv base w fs data -> fnames fs' = fnames fs ->
  fnames (run_defer (DCloseBW w) fs') = base.
Proof. intros I H. cbn [run_defer]. pose proof (w_reader_spec base w fs data I) as R.
  destruct (w_reader w) as [w' [r|]]; unfold w_close.
  - destruct R as (_ & _ & _ & _ & Hn & _). rewrite (mr_close_names r fs' fs H). exact Hn.
  - destruct R as (-> & Hst). destruct I as [_ _ _ Hs]. rewrite Hst in Hs. rewrite H. tauto. Qed.

(* a writer whose reader was taken has nothing left to clean *)
Lemma close_bw_called w fs : w_st w = WCalledRead -> run_defer (DCloseBW w) fs = fs.
Proof. intros H. cbn. unfold w_reader. rewrite H. reflexivity. Qed.
