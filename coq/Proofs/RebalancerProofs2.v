(* Traffic shares under adjustWeights: an outlier never gains, loses when a good server can still grow,
   and weights return to the configured proportions within six requests without outliers. *)
From Oxy Require Import Base.Prelude Model.Rebalancer Proofs.RebalancerProofs.
Open Scope Z_scope.

Fixpoint zsum (l : list Z) : Z := match l with [] => 0 | x :: t => x + zsum t end.
Definition total (sh : list srv) : Z := zsum (map cur sh).   (* sum of the current weights *)

(* ---------------------------------------------------------------------------------------------
   sums
   --------------------------------------------------------------------------------------------- *)
Lemma total_mono (f : srv -> srv) sh : (forall x, In x sh -> cur x <= cur (f x)) -> total sh <= total (map f sh).
Proof. unfold total. induction sh as [|r sh IH]; cbn; intros H; [lia|].
  pose proof (H r (or_introl eq_refl)). specialize (IH (fun x Hx => H x (or_intror Hx))). lia. Qed.

Lemma total_strict (f : srv -> srv) sh : (forall x, In x sh -> cur x <= cur (f x)) ->
  (exists x, In x sh /\ cur x < cur (f x)) -> total sh < total (map f sh).
Proof. unfold total. induction sh as [|r sh IH]; cbn; intros H (x & Hx & Hlt); [tauto|].
  pose proof (H r (or_introl eq_refl)).
  pose proof (total_mono f sh (fun y Hy => H y (or_intror Hy))) as Hm. unfold total in Hm.
  destruct Hx as [->|Hx]; [lia|].
  specialize (IH (fun y Hy => H y (or_intror Hy)) (ex_intro _ x (conj Hx Hlt))). lia. Qed.

Lemma total_same (f : srv -> srv) sh : (forall x, In x sh -> cur (f x) = cur x) -> total (map f sh) = total sh.
Proof. unfold total. induction sh as [|r sh IH]; cbn; intros H; [reflexivity|].
  rewrite (H r (or_introl eq_refl)), IH; [reflexivity|]. intros; apply H; right; assumption. Qed.

Lemma total_div g sh : 1 <= g -> Forall (fun r => (g | cur r)) sh ->
  g * total (map (fun r => set_cur r (cur r / g)) sh) = total sh.
Proof. unfold total. intros Hg. induction sh as [|r sh IH]; cbn; intros H; [lia|]. inv H.
  destruct H2 as [q Hq]. rewrite Hq at 1. rewrite Z.div_mul by lia. rewrite Z.mul_add_distr_l, IH by assumption. lia. Qed.

Lemma div_totals g (h : srv -> srv) sh : 1 <= g -> (forall x, In x sh -> (g | cur (h x))) ->
  g * total (map (fun x => set_cur (h x) (cur (h x) / g)) sh) = total (map h sh).
Proof. intros Hg Hdiv. rewrite <- (total_div g (map h sh) Hg), map_map; [reflexivity|].
  apply Forall_forall. intros y Hy. apply in_map_iff in Hy. destruct Hy as (z & <- & Hz). auto. Qed.

Lemma nth_error_map' {A B} (f : A -> B) l i y : nth_error (map f l) i = Some y -> exists x, nth_error l i = Some x /\ y = f x.
Proof. rewrite nth_error_map. destruct (nth_error l i); cbn; intros H; inv H. eauto. Qed.

(* ---------------------------------------------------------------------------------------------
   the shape of adjust_core's result
   --------------------------------------------------------------------------------------------- *)
Definition sg (goodf : Z -> bool) (r : srv) : srv := set_good r (goodf (skey r)).
Definition fm (r : srv) : srv := fst (mark_one r).
Definition fc (r : srv) : srv := fst (conv_one r).

Definition both_classes (goodf : Z -> bool) (sh : list srv) : Prop :=
  (exists r, In r sh /\ goodf (skey r) = true) /\ (exists r, In r sh /\ goodf (skey r) = false).

Lemma both_classes_bool goodf sh :
  existsb good (map (sg goodf) sh) && existsb (fun r => negb (good r)) (map (sg goodf) sh) = true <-> both_classes goodf sh.
Proof. rewrite andb_true_iff, !existsb_exists. unfold both_classes. split; intros [(x & Hx & Gx) (y & Hy & Gy)].
  - apply in_map_iff in Hx, Hy. destruct Hx as (r1 & <- & H1), Hy as (r2 & <- & H2). cbn in Gx, Gy.
    split; [exists r1|exists r2]; split; auto. destruct (goodf (skey r2)); [discriminate|reflexivity].
  - split; [exists (sg goodf x)|exists (sg goodf y)]; (split; [apply in_map; assumption|cbn]); [assumption|rewrite Gy; reflexivity]. Qed.

(* either only the flags were written, or every weight is the updated one divided by a common g >= 1 *)
Definition shape (f : srv -> srv) (goodf : Z -> bool) (b : Z) (s s' : st) : Prop :=
  (shadow s' = map (sg goodf) (shadow s) /\ pool s' = pool s /\ timer s' = timer s) \/
  (exists g, 1 <= g /\ Forall (fun r => (g | cur (f (sg goodf r)))) (shadow s) /\
     shadow s' = map (fun r => set_cur (f (sg goodf r)) (cur (f (sg goodf r)) / g)) (shadow s) /\ timer s' = now s + b).

Lemma wfr_sg goodf sh : Forall wfr sh -> Forall wfr (map (sg goodf) sh).
Proof. intros H. apply Forall_forall. intros r Hr. apply in_map_iff in Hr. destruct Hr as (x & <- & Hx).
  rewrite Forall_forall in H. apply wfr_set_good. auto. Qed.

Lemma normalized_shape (f : srv -> srv) goodf sh : Forall wfr sh -> (forall r, wfr r -> wfr (f r)) ->
  exists g, 1 <= g /\ Forall (fun r => (g | cur (f (sg goodf r)))) sh /\
    normalize (map f (map (sg goodf) sh)) = map (fun r => set_cur (f (sg goodf r)) (cur (f (sg goodf r)) / g)) sh.
Proof. intros Hw Hf.
  assert (Hw' : Forall wfr (map f (map (sg goodf) sh))).
  { apply Forall_forall. intros r Hr. apply in_map_iff in Hr. destruct Hr as (x & <- & Hx). apply Hf.
    pose proof (wfr_sg goodf sh Hw) as H. rewrite Forall_forall in H. auto. }
  destruct (normalize_spec _ (wfr_all_nonneg _ Hw')) as (g & Hg & Hdiv & En).
  exists g. split; [exact Hg|]. split.
  - rewrite Forall_forall in *. intros r Hr. apply (Hdiv (f (sg goodf r))). apply in_map, in_map. assumption.
  - rewrite En, !map_map. reflexivity. Qed.

Lemma fm_wfr r : wfr r -> wfr (fm r).
Proof. intros H. apply (mark_one_facts r H). Qed.
Lemma fc_wfr r : wfr r -> wfr (fc r).
Proof. intros H. apply (conv_one_facts r H). Qed.

Lemma adjust_core_marked b s goodf : Inv s -> both_classes goodf (shadow s) ->
  shape fm goodf b s (adjust_core b s goodf) /\
  ((exists r, In r (shadow s) /\ snd (mark_one (sg goodf r)) = true) -> timer (adjust_core b s goodf) = now s + b
     /\ exists g, 1 <= g /\ Forall (fun r => (g | cur (fm (sg goodf r)))) (shadow s) /\
        shadow (adjust_core b s goodf) = map (fun r => set_cur (fm (sg goodf r)) (cur (fm (sg goodf r)) / g)) (shadow s)).
Proof. intros HI Hb. unfold adjust_core. fold (sg goodf).
  apply both_classes_bool in Hb. rewrite Hb.
  destruct (normalized_shape fm goodf (shadow s) (inv_wfr s HI) fm_wfr) as (g & Hg & Hdiv & En).
  destruct (existsb (fun r => snd (mark_one r)) (map (sg goodf) (shadow s))) eqn:Ech.
  - split.
    + right. exists g. cbn. fold fm. rewrite En. auto.
    + intros _. cbn. split; [reflexivity|]. exists g. fold fm. rewrite En. auto.
  - split; [left; cbn; auto|]. intros (r & Hr & Hs). exfalso.
    assert (existsb (fun r => snd (mark_one r)) (map (sg goodf) (shadow s)) = true); [|congruence].
    apply existsb_exists. exists (sg goodf r). split; [apply in_map; assumption|exact Hs]. Qed.

Lemma adjust_core_converge b s goodf : Inv s -> ~ both_classes goodf (shadow s) ->
  (Forall (fun r => cur r = orig r) (shadow s) /\ shadow (adjust_core b s goodf) = map (sg goodf) (shadow s)
     /\ timer (adjust_core b s goodf) = timer s) \/
  (exists g, 1 <= g /\ Forall (fun r => (g | cur (fc (sg goodf r)))) (shadow s) /\
     shadow (adjust_core b s goodf) = map (fun r => set_cur (fc (sg goodf r)) (cur (fc (sg goodf r)) / g)) (shadow s) /\
     timer (adjust_core b s goodf) = now s + b).
Proof. intros HI Hb. unfold adjust_core. fold (sg goodf).
  destruct (existsb good (map (sg goodf) (shadow s)) && existsb (fun r => negb (good r)) (map (sg goodf) (shadow s))) eqn:E.
  { apply both_classes_bool in E. tauto. }
  destruct (normalized_shape fc goodf (shadow s) (inv_wfr s HI) fc_wfr) as (g & Hg & Hdiv & En).
  destruct (existsb (fun r => snd (conv_one r)) (map (sg goodf) (shadow s))) eqn:Ech.
  - right. exists g. cbn. fold fc. rewrite En. auto.
  - left. cbn. split; [|auto]. apply Forall_forall. intros r Hr.
    destruct (Z.eqb_spec (orig r) (cur r)) as [Eq|Hne]; [auto|]. exfalso.
    assert (existsb (fun r => snd (conv_one r)) (map (sg goodf) (shadow s)) = true); [|congruence].
    apply existsb_exists. exists (sg goodf r). split; [apply in_map; assumption|].
    unfold conv_one. cbn. destruct (Z.eqb_spec (orig r) (cur r)); [congruence|reflexivity]. Qed.

(* ---------------------------------------------------------------------------------------------
   C10_no_outlier_gain / C10_outlier_loses for an arbitrary classification
   --------------------------------------------------------------------------------------------- *)
Lemma fm_sg_facts goodf r : wfr r ->
  cur r <= cur (fm (sg goodf r)) /\ (goodf (skey r) = false -> cur (fm (sg goodf r)) = cur r).
Proof. intros H. pose proof (mark_one_facts (sg goodf r) (wfr_set_good r _ H)) as (_ & _ & _ & A & B). cbn in A, B. auto. Qed.

Lemma no_gain_core b s goodf : Inv s -> both_classes goodf (shadow s) ->
  forall i r r', nth_error (shadow s) i = Some r -> nth_error (shadow (adjust_core b s goodf)) i = Some r' ->
  goodf (skey r) = false -> cur r' * total (shadow s) <= cur r * total (shadow (adjust_core b s goodf)).
Proof. intros HI Hb i r r' Hr Hr' Hbad. pose proof (inv_wfr s HI) as Hw. rewrite Forall_forall in Hw.
  destruct (adjust_core_marked b s goodf HI Hb) as [[(Esh & _)|(g & Hg & Hdiv & Esh & _)] _]; rewrite Esh in *.
  - apply nth_error_map' in Hr'. destruct Hr' as (x & Hx & ->). assert (x = r) by congruence. subst x.
    rewrite total_same by reflexivity. cbn. lia.
  - apply nth_error_map' in Hr'. destruct Hr' as (x & Hx & ->). assert (x = r) by congruence. subst x.
    assert (Hin : In r (shadow s)) by (eapply nth_error_In; eassumption).
    destruct (fm_sg_facts goodf r (Hw r Hin)) as [_ Hsame]. specialize (Hsame Hbad).
    rewrite Forall_forall in Hdiv. destruct (Hdiv r Hin) as [q Hq]. cbn [cur set_cur].
    pose proof (div_totals g (fun r => fm (sg goodf r)) (shadow s) Hg Hdiv) as Hd.
    pose proof (total_mono (fun r => fm (sg goodf r)) (shadow s) (fun x Hx' => proj1 (fm_sg_facts goodf x (Hw x Hx')))) as Hm.
    cbv beta in Hd.
    set (T2 := total (map (fun x => set_cur (fm (sg goodf x)) (cur (fm (sg goodf x)) / g)) (shadow s))) in *.
    set (T1 := total (map (fun r => fm (sg goodf r)) (shadow s))) in *.
    set (T := total (shadow s)) in *.
    rewrite Hq, Z.div_mul by lia. rewrite Hsame in Hq.
    assert (0 <= cur r) by (apply wfr_cur_nonneg; auto). assert (0 <= q) by nia.
    assert (q * T <= q * T1) by (apply Z.mul_le_mono_nonneg_l; lia). rewrite Hq. nia. Qed.

(* a good server that can still grow: positive weight and its grown weight within the cap *)
Definition growable (goodf : Z -> bool) (r : srv) : Prop :=
  goodf (skey r) = true /\ 0 < cur r /\ FSMGrowFactor * cur r <= FSMMaxWeight.

Lemma loses_core b s goodf : Inv s -> both_classes goodf (shadow s) ->
  (exists r0, In r0 (shadow s) /\ growable goodf r0) ->
  forall i r r', nth_error (shadow s) i = Some r -> nth_error (shadow (adjust_core b s goodf)) i = Some r' ->
  goodf (skey r) = false -> 0 < cur r -> cur r' * total (shadow s) < cur r * total (shadow (adjust_core b s goodf)).
Proof. intros HI Hb (r0 & Hr0 & Hg0 & Hpos0 & Hcap0) i r r' Hr Hr' Hbad Hpos.
  pose proof (inv_wfr s HI) as Hw. rewrite Forall_forall in Hw.
  assert (Hgrow : cur r0 < cur (fm (sg goodf r0)) /\ snd (mark_one (sg goodf r0)) = true).
  { unfold fm, sg, mark_one, increase, FSMGrowFactor, FSMMaxWeight in *. cbn. rewrite Hg0.
    destruct (Z.leb_spec (cur r0 * 4) 4096); cbn; [split; [lia|reflexivity]|lia]. }
  destruct (adjust_core_marked b s goodf HI Hb) as [_ Hch].
  destruct Hch as (_ & g & Hg & Hdiv & Esh); [exists r0; tauto|]. rewrite Esh in *.
  apply nth_error_map' in Hr'. destruct Hr' as (x & Hx & ->). assert (x = r) by congruence. subst x.
  assert (Hin : In r (shadow s)) by (eapply nth_error_In; eassumption).
  destruct (fm_sg_facts goodf r (Hw r Hin)) as [_ Hsame]. specialize (Hsame Hbad).
  rewrite Forall_forall in Hdiv. destruct (Hdiv r Hin) as [q Hq]. cbn [cur set_cur].
  pose proof (div_totals g (fun r => fm (sg goodf r)) (shadow s) Hg Hdiv) as Hd.
  pose proof (total_strict (fun r => fm (sg goodf r)) (shadow s) (fun x Hx' => proj1 (fm_sg_facts goodf x (Hw x Hx')))
                (ex_intro _ r0 (conj Hr0 (proj1 Hgrow)))) as Hm.
  cbv beta in Hd.
    set (T2 := total (map (fun x => set_cur (fm (sg goodf x)) (cur (fm (sg goodf x)) / g)) (shadow s))) in *.
    set (T1 := total (map (fun r => fm (sg goodf r)) (shadow s))) in *.
  set (T := total (shadow s)) in *.
  rewrite Hq, Z.div_mul by lia. rewrite Hsame in Hq.
  assert (0 < q) by nia.
  assert (q * T < q * T1) by (apply Z.mul_lt_mono_pos_l; lia). rewrite Hq. nia. Qed.

(* otherwise (no good server can grow) the shares stay exactly as they are *)
Lemma keeps_core b s goodf : Inv s -> both_classes goodf (shadow s) ->
  ~ (exists r0, In r0 (shadow s) /\ growable goodf r0) ->
  forall i r r', nth_error (shadow s) i = Some r -> nth_error (shadow (adjust_core b s goodf)) i = Some r' ->
  cur r' * total (shadow s) = cur r * total (shadow (adjust_core b s goodf)).
Proof. intros HI Hb Hno i r r' Hr Hr'.
  pose proof (inv_wfr s HI) as Hw. rewrite Forall_forall in Hw.
  assert (Hsame : forall x, In x (shadow s) -> cur (fm (sg goodf x)) = cur x).
  { intros x Hx. pose proof (wfr_cur_nonneg x (Hw x Hx)) as Hc.
    unfold fm, sg, mark_one, increase. cbn. destruct (goodf (skey x)) eqn:G; [|reflexivity].
    destruct (Z.leb_spec (cur x * FSMGrowFactor) FSMMaxWeight); [|reflexivity]. cbn.
    destruct (Z.eq_dec (cur x) 0) as [->|Hnz]; [reflexivity|]. exfalso. apply Hno. exists x. split; [assumption|].
    unfold growable. repeat split; [assumption|lia|lia]. }
  destruct (adjust_core_marked b s goodf HI Hb) as [[(Esh & _)|(g & Hg & Hdiv & Esh & _)] _]; rewrite Esh in *.
  - apply nth_error_map' in Hr'. destruct Hr' as (x & Hx & ->). assert (x = r) by congruence. subst x.
    rewrite total_same by reflexivity. cbn. lia.
  - apply nth_error_map' in Hr'. destruct Hr' as (x & Hx & ->). assert (x = r) by congruence. subst x.
    assert (Hin : In r (shadow s)) by (eapply nth_error_In; eassumption).
    rewrite Forall_forall in Hdiv. destruct (Hdiv r Hin) as [q Hq]. cbn [cur set_cur].
    pose proof (div_totals g (fun r => fm (sg goodf r)) (shadow s) Hg Hdiv) as Hd.
    cbv beta in Hd. rewrite (total_same (fun r => fm (sg goodf r)) (shadow s) Hsame) in Hd.
    set (T2 := total (map (fun x => set_cur (fm (sg goodf x)) (cur (fm (sg goodf x)) / g)) (shadow s))) in *.
    set (T := total (shadow s)) in *.
    rewrite Hq, Z.div_mul by lia. rewrite (Hsame r Hin) in Hq. rewrite Hq, <- Hd. ring. Qed.

(* ---------------------------------------------------------------------------------------------
   the same at the level of one request (step (Adjust ms)), with the model's own classification
   --------------------------------------------------------------------------------------------- *)
Definition all_ready (s : st) (ms : meters) : Prop := forall r, In r (shadow s) -> fst (meter_of ms (skey r)) = true.

Lemma all_ready_bool s ms : all_ready s ms -> forallb (fun r => fst (meter_of ms (skey r))) (shadow s) = true.
Proof. intros H. apply forallb_forall. exact H. Qed.

Lemma both_classes_length goodf sh : both_classes goodf sh -> (2 <= length sh)%nat.
Proof. intros [(r1 & H1 & G1) (r2 & H2 & G2)]. destruct sh as [|a [|c sh]]; cbn in *; try tauto; try lia.
  destruct H1 as [->|[]], H2 as [->|[]]. congruence. Qed.

Lemma servable_pos s r : Inv s -> In r (shadow s) -> 0 < cur r -> servable (pool s) = true.
Proof. intros HI Hr Hp. rewrite (inv_pool s HI). unfold servable. apply existsb_exists. exists (kc r).
  split; [apply in_map; assumption|]. cbn. apply Z.ltb_lt. assumption. Qed.

(* whatever the request does, it is one of: nothing, or adjust_core with the model's classification *)
Lemma serve_cases b s ms : serve b s ms = s \/
  ((2 <= length (shadow s))%nat /\ timer s < now s /\ serve b s ms = adjust_core b s (classify (shadow s) ms)).
Proof. unfold serve, adjust. destruct (servable (pool s)); [|left; reflexivity].
  destruct (Nat.ltb_spec (length (shadow s)) 2); [left; reflexivity|].
  destruct (negb (forallb _ (shadow s))); [left; reflexivity|].
  destruct (Z.ltb_spec (timer s) (now s)); cbn [negb]; [right; auto|left; reflexivity]. Qed.

Lemma serve_effective b s ms : Inv s -> all_ready s ms -> timer s < now s -> (2 <= length (shadow s))%nat ->
  servable (pool s) = true -> serve b s ms = adjust_core b s (classify (shadow s) ms).
Proof. intros HI Hr Ht Hl Hs. unfold serve, adjust. rewrite Hs, (all_ready_bool s ms Hr).
  destruct (Nat.ltb_spec (length (shadow s)) 2); [lia|]. destruct (Z.ltb_spec (timer s) (now s)); [reflexivity|lia]. Qed.

Lemma no_gain_step b s ms : Inv s -> both_classes (classify (shadow s) ms) (shadow s) ->
  forall i r r', nth_error (shadow s) i = Some r -> nth_error (shadow (fst (step b s (Adjust ms)))) i = Some r' ->
  classify (shadow s) ms (skey r) = false ->
  cur r' * total (shadow s) <= cur r * total (shadow (fst (step b s (Adjust ms)))).
Proof. intros HI Hb i r r' Hr Hr' Hbad. cbn [step fst] in *.
  destruct (serve_cases b s ms) as [E|(_ & _ & E)]; rewrite E in *.
  - assert (r' = r) by congruence. subst. lia.
  - eapply no_gain_core; eassumption. Qed.

Lemma loses_step b s ms : Inv s -> all_ready s ms -> timer s < now s ->
  both_classes (classify (shadow s) ms) (shadow s) ->
  (exists r0, In r0 (shadow s) /\ growable (classify (shadow s) ms) r0) ->
  forall i r r', nth_error (shadow s) i = Some r -> nth_error (shadow (fst (step b s (Adjust ms)))) i = Some r' ->
  classify (shadow s) ms (skey r) = false -> 0 < cur r ->
  cur r' * total (shadow s) < cur r * total (shadow (fst (step b s (Adjust ms)))).
Proof. intros HI Hrd Ht Hb Hg i r r' Hr Hr' Hbad Hpos. cbn [step fst] in *.
  assert (Hin : In r (shadow s)) by (eapply nth_error_In; eassumption).
  rewrite (serve_effective b s ms HI Hrd Ht (both_classes_length _ _ Hb) (servable_pos s r HI Hin Hpos)) in *.
  eapply loses_core; eassumption. Qed.

Lemma keeps_step b s ms : Inv s -> both_classes (classify (shadow s) ms) (shadow s) ->
  ~ (exists r0, In r0 (shadow s) /\ growable (classify (shadow s) ms) r0) ->
  forall i r r', nth_error (shadow s) i = Some r -> nth_error (shadow (fst (step b s (Adjust ms)))) i = Some r' ->
  cur r' * total (shadow s) = cur r * total (shadow (fst (step b s (Adjust ms)))).
Proof. intros HI Hb Hno i r r' Hr Hr'. cbn [step fst] in *.
  destruct (serve_cases b s ms) as [E|(_ & _ & E)]; rewrite E in *.
  - assert (r' = r) by congruence. subst. lia.
  - eapply keeps_core; eassumption. Qed.

(* ---------------------------------------------------------------------------------------------
   C10_converge_six
   --------------------------------------------------------------------------------------------- *)
Definition Jb (B : Z) (sh : list srv) : Prop := Forall (fun r => cur r <= Z.max (orig r) B) sh.
Definition proportional (sh : list srv) : Prop :=
  forall r1 r2, In r1 sh -> In r2 sh -> cur r1 * orig r2 = cur r2 * orig r1.

(* all meters ready and no server stands out: the classification puts every server in the same class *)
Definition calm (s : st) (ms : meters) : Prop :=
  all_ready s ms /\
  forall r1 r2, In r1 (shadow s) -> In r2 (shadow s) -> classify (shadow s) ms (skey r1) = classify (shadow s) ms (skey r2).

Definition Tinv (b : Z) (s : st) : Prop := timer s <= now s + b.

Lemma calm_not_both s ms : calm s ms -> ~ both_classes (classify (shadow s) ms) (shadow s).
Proof. intros [_ H] [(r1 & H1 & G1) (r2 & H2 & G2)]. rewrite (H r1 r2 H1 H2) in G1. congruence. Qed.

Lemma equal_ratings_calm s ms c : (forall r, In r (shadow s) -> meter_of ms (skey r) = (true, c)) -> calm s ms.
Proof. intros H. split.
  - intros r Hr. rewrite (H r Hr). reflexivity.
  - intros r1 r2 H1 H2. unfold classify, rating. rewrite (H r1 H1), (H r2 H2). reflexivity. Qed.

Lemma same_cur_orig_J B sh : Forall (fun r => cur r = orig r) sh -> Jb B sh /\ proportional sh.
Proof. intros H. rewrite Forall_forall in H. split.
  - apply Forall_forall. intros r Hr. rewrite (H r Hr). lia.
  - intros r1 r2 H1 H2. rewrite (H r1 H1), (H r2 H2). ring. Qed.

Lemma Jb_sg B goodf sh : Forall (fun r => cur r = orig r) sh -> Jb B (map (sg goodf) sh) /\ proportional (map (sg goodf) sh).
Proof. intros H. apply same_cur_orig_J. apply Forall_forall. intros r Hr. apply in_map_iff in Hr.
  destruct Hr as (x & <- & Hx). rewrite Forall_forall in H. cbn. auto. Qed.

(* one converge step on a record: the new weight before normalisation *)
Lemma fc_value goodf r : wfr r ->
  let v := cur (fc (sg goodf r)) in
  orig (fc (sg goodf r)) = orig r /\ 0 <= v /\
  (forall B, 0 <= B -> cur r <= Z.max (orig r) B -> v <= Z.max (orig r) (B / FSMGrowFactor)) /\
  (cur r <= Z.max (orig r) FSMGrowFactor -> v = orig r).
Proof. intros H. pose proof (wfr_cur_nonneg r H) as Hc. unfold fc, sg, conv_one. cbn.
  destruct (Z.eqb_spec (orig r) (cur r)) as [E|Hne]; cbn.
  - unfold wfr in H. split; [reflexivity|]. split; [lia|]. split; [|lia]. intros B HB _.
    pose proof (Z.div_pos B FSMGrowFactor HB ltac:(unfold FSMGrowFactor; lia)). lia.
  - rewrite decrease_spec by assumption. unfold wfr, FSMGrowFactor in *.
    pose proof (Z.div_pos (cur r) 4 ltac:(lia) ltac:(lia)).
    split; [reflexivity|]. split; [lia|]. split.
    + intros B HB Hle. pose proof (Z.div_le_mono (cur r) (Z.max (orig r) B) 4 ltac:(lia) Hle).
      assert (Z.max (orig r) B / 4 <= Z.max (orig r) (B / 4)); [|lia].
      destruct (Z.max_spec (orig r) B) as [[_ ->]|[_ ->]]; [lia|].
      pose proof (Z.div_le_upper_bound (orig r) 4 (orig r) ltac:(lia) ltac:(lia)). lia.
    + intros Hle. assert (1 <= orig r) by lia.
      pose proof (Z.div_le_mono (cur r) (Z.max (orig r) 4) 4 ltac:(lia) Hle).
      assert (Z.max (orig r) 4 / 4 <= orig r); [|lia].
      destruct (Z.max_spec (orig r) 4) as [[_ ->]|[_ ->]]; [change (4 / 4) with 1; lia|].
      pose proof (Z.div_le_upper_bound (orig r) 4 (orig r) ltac:(lia) ltac:(lia)). lia. Qed.

Lemma converge_core b s goodf : Inv s -> ~ both_classes goodf (shadow s) ->
  let s' := adjust_core b s goodf in
  (forall B, 0 <= B -> Jb B (shadow s) -> Jb (B / FSMGrowFactor) (shadow s')) /\
  (Jb FSMGrowFactor (shadow s) -> proportional (shadow s')).
Proof. intros HI Hnb. cbv zeta. pose proof (inv_wfr s HI) as Hw. rewrite Forall_forall in Hw.
  destruct (adjust_core_converge b s goodf HI Hnb) as [(Heq & -> & _)|(g & Hg & Hdiv & -> & _)].
  - split; [intros B _ _; apply (Jb_sg (B / FSMGrowFactor) goodf _ Heq)|intros _; apply (Jb_sg 0 goodf _ Heq)].
  - rewrite Forall_forall in Hdiv. split.
    + intros B HB HJ. unfold Jb in *. rewrite Forall_forall in HJ. apply Forall_forall. intros r' Hr'.
      apply in_map_iff in Hr'. destruct Hr' as (r & <- & Hr).
      destruct (fc_value goodf r (Hw r Hr)) as (Eo & Hv & Hbound & _). cbv zeta in *. cbn [cur orig set_cur]. rewrite Eo.
      specialize (Hbound B HB (HJ r Hr)). destruct (Hdiv r Hr) as [q Hq]. rewrite Hq, Z.div_mul by lia.
      assert (0 <= q) by nia. nia.
    + intros HJ. unfold Jb in HJ. rewrite Forall_forall in HJ. intros x1 x2 H1 H2.
      apply in_map_iff in H1, H2. destruct H1 as (r1 & <- & H1), H2 as (r2 & <- & H2).
      destruct (fc_value goodf r1 (Hw r1 H1)) as (Eo1 & _ & _ & Hv1). destruct (fc_value goodf r2 (Hw r2 H2)) as (Eo2 & _ & _ & Hv2).
      cbv zeta in *. cbn [cur orig set_cur]. rewrite Eo1, Eo2.
      destruct (Hdiv r1 H1) as [q1 Hq1]. destruct (Hdiv r2 H2) as [q2 Hq2].
      rewrite Hq1, Hq2, !Z.div_mul by lia. rewrite <- (Hv1 (HJ r1 H1)), <- (Hv2 (HJ r2 H2)), Hq1, Hq2. ring. Qed.

(* the degenerate cases in which a request never reaches adjust_core: nothing to converge *)
Lemma degenerate_J b s ms B : Inv s -> serve b s ms = s ->
  (servable (pool s) = false \/ (length (shadow s) < 2)%nat) -> Jb B (shadow s) /\ proportional (shadow s).
Proof. intros HI _ [Hns|Hl].
  - apply same_cur_orig_J. pose proof (inv_wfr s HI) as Hw. rewrite Forall_forall in *. intros r Hr.
    assert (~ 0 < cur r) by (intros Hp; rewrite (servable_pos s r HI Hr Hp) in Hns; discriminate).
    specialize (Hw r Hr). unfold wfr in Hw. lia.
  - apply same_cur_orig_J. apply (inv_small s HI Hl). Qed.

Lemma skey_of_ko sh sh' : map ko sh = map ko sh' -> map skey sh = map skey sh'.
Proof. intros H. apply (f_equal (map fst)) in H. rewrite !map_map in H. exact H. Qed.

Lemma calm_transfer s s' ms : map skey (shadow s') = map skey (shadow s) -> calm s ms -> calm s' ms.
Proof. intros Hk [Hr Hc].
  assert (Hin : forall r', In r' (shadow s') -> exists r, In r (shadow s) /\ skey r = skey r').
  { intros r' Hr'. apply (in_map skey) in Hr'. rewrite Hk in Hr'. apply in_map_iff in Hr'. destruct Hr' as (r & E & H). eauto. }
  assert (Hcl : forall k, classify (shadow s') ms k = classify (shadow s) ms k).
  { intros k. unfold classify. rewrite <- (map_map skey (rating ms) (shadow s')), Hk, map_map. reflexivity. }
  split.
  - intros r' Hr'. destruct (Hin r' Hr') as (r & H & <-). apply Hr. assumption.
  - intros x1 x2 H1 H2. destruct (Hin x1 H1) as (r1 & G1 & <-). destruct (Hin x2 H2) as (r2 & G2 & <-).
    rewrite !Hcl. apply Hc; assumption. Qed.

(* one round: the clock advances by more than the back-off, then a calm request *)
Lemma round_step b s d ms : 0 <= b -> Inv s -> Tinv b s -> b < d -> calm s ms ->
  let s' := exec (step b) s [Tick d; Adjust ms] in
  Inv s' /\ Tinv b s' /\ map skey (shadow s') = map skey (shadow s) /\
  (forall B, 0 <= B -> Jb B (shadow s) -> Jb (B / FSMGrowFactor) (shadow s')) /\
  (Jb FSMGrowFactor (shadow s) -> proportional (shadow s')).
Proof. intros Hb HI HT Hd Hcalm. cbn [exec step fst].
  set (s1 := {| pool := pool s; shadow := shadow s; timer := timer s; now := now s + d |}).
  assert (HI1 : Inv s1) by (destruct HI; constructor; assumption).
  assert (Hc1 : calm s1 ms) by exact Hcalm.
  assert (Ht1 : timer s1 < now s1) by (unfold Tinv in HT; cbn; lia).
  destruct (serve_spec b s1 ms HI1) as (HI' & Hko & Hn & Hlen & Htm).
  split; [exact HI'|]. split; [unfold Tinv; destruct Htm as [[_ ->]|[_ ->]]; rewrite Hn; lia|].
  split; [apply skey_of_ko in Hko; exact Hko|].
  change (shadow s) with (shadow s1).
  destruct (servable (pool s1)) eqn:Hs; [destruct (Nat.ltb_spec (length (shadow s1)) 2) as [Hl|Hl]|].
  - assert (E : serve b s1 ms = s1) by (unfold serve, adjust; rewrite Hs; destruct (Nat.ltb_spec (length (shadow s1)) 2); [reflexivity|lia]).
    rewrite E. split; [intros B _ _; eapply (degenerate_J b s1 ms (B / FSMGrowFactor)); eauto|intros _; eapply (degenerate_J b s1 ms 0); eauto].
  - rewrite (serve_effective b s1 ms HI1 (proj1 Hc1) Ht1 Hl Hs).
    apply converge_core; [exact HI1|apply calm_not_both; exact Hc1].
  - assert (E : serve b s1 ms = s1) by (unfold serve; rewrite Hs; reflexivity).
    rewrite E. split; [intros B _ _; eapply (degenerate_J b s1 ms (B / FSMGrowFactor)); eauto|intros _; eapply (degenerate_J b s1 ms 0); eauto]. Qed.

Definition round_ops (rounds : list (Z * meters)) : list op :=
  flat_map (fun dm => [Tick (fst dm); Adjust (snd dm)]) rounds.

Lemma Inv_J0 s : Inv s -> Jb FSMMaxWeight (shadow s).
Proof. intros HI. pose proof (inv_wfr s HI) as Hw. unfold Jb. eapply Forall_impl; [|exact Hw].
  unfold wfr. intros r H. lia. Qed.

Lemma converge_six b s rounds : 0 <= b -> Inv s -> Tinv b s -> length rounds = 6%nat ->
  Forall (fun dm => b < fst dm /\ calm s (snd dm)) rounds ->
  proportional (shadow (exec (step b) s (round_ops rounds))).
Proof. intros Hb HI HT Hlen Hr.
  destruct rounds as [|[d1 m1] [|[d2 m2] [|[d3 m3] [|[d4 m4] [|[d5 m5] [|[d6 m6] [|]]]]]]]; try discriminate.
  repeat match goal with H : Forall _ (_ :: _) |- _ => inversion H; subst; clear H end.
  repeat match goal with H : _ /\ _ |- _ => destruct H end. cbn [fst snd] in *.
  unfold round_ops. cbn [flat_map app fst snd].
  change (exec (step b) s [Tick d1; Adjust m1; Tick d2; Adjust m2; Tick d3; Adjust m3; Tick d4; Adjust m4; Tick d5; Adjust m5; Tick d6; Adjust m6])
    with (exec (step b) s ([Tick d1; Adjust m1] ++ [Tick d2; Adjust m2] ++ [Tick d3; Adjust m3] ++ [Tick d4; Adjust m4] ++ [Tick d5; Adjust m5] ++ [Tick d6; Adjust m6])).
  rewrite !exec_app.
  pose proof (Inv_J0 s HI) as J0.
  destruct (round_step b s d1 m1 Hb HI HT ltac:(assumption) ltac:(assumption)) as (I1 & T1 & K1 & S1 & _).
  set (s1 := exec (step b) s [Tick d1; Adjust m1]) in *.
  pose proof (S1 FSMMaxWeight ltac:(vm_compute; discriminate) J0) as J1.
  assert (C2 : calm s1 m2) by (eapply calm_transfer; eassumption).
  destruct (round_step b s1 d2 m2 Hb I1 T1 ltac:(assumption) C2) as (I2 & T2 & K2 & S2 & _).
  set (s2 := exec (step b) s1 [Tick d2; Adjust m2]) in *.
  pose proof (S2 (FSMMaxWeight / FSMGrowFactor) ltac:(vm_compute; discriminate) J1) as J2.
  assert (K2' : map skey (shadow s2) = map skey (shadow s)) by (etransitivity; [exact K2|exact K1]).
  assert (C3 : calm s2 m3) by (eapply calm_transfer; [exact K2'|eassumption]).
  destruct (round_step b s2 d3 m3 Hb I2 T2 ltac:(assumption) C3) as (I3 & T3 & K3 & S3 & _).
  set (s3 := exec (step b) s2 [Tick d3; Adjust m3]) in *.
  pose proof (S3 ((FSMMaxWeight / FSMGrowFactor) / FSMGrowFactor) ltac:(vm_compute; discriminate) J2) as J3.
  assert (K3' : map skey (shadow s3) = map skey (shadow s)) by (etransitivity; [exact K3|exact K2']).
  assert (C4 : calm s3 m4) by (eapply calm_transfer; [exact K3'|eassumption]).
  destruct (round_step b s3 d4 m4 Hb I3 T3 ltac:(assumption) C4) as (I4 & T4 & K4 & S4 & _).
  set (s4 := exec (step b) s3 [Tick d4; Adjust m4]) in *.
  pose proof (S4 (((FSMMaxWeight / FSMGrowFactor) / FSMGrowFactor) / FSMGrowFactor) ltac:(vm_compute; discriminate) J3) as J4.
  assert (K4' : map skey (shadow s4) = map skey (shadow s)) by (etransitivity; [exact K4|exact K3']).
  assert (C5 : calm s4 m5) by (eapply calm_transfer; [exact K4'|eassumption]).
  destruct (round_step b s4 d5 m5 Hb I4 T4 ltac:(assumption) C5) as (I5 & T5 & K5 & S5 & _).
  set (s5 := exec (step b) s4 [Tick d5; Adjust m5]) in *.
  pose proof (S5 ((((FSMMaxWeight / FSMGrowFactor) / FSMGrowFactor) / FSMGrowFactor) / FSMGrowFactor) ltac:(vm_compute; discriminate) J4) as J5.
  assert (K5' : map skey (shadow s5) = map skey (shadow s)) by (etransitivity; [exact K5|exact K4']).
  assert (C6 : calm s5 m6) by (eapply calm_transfer; [exact K5'|eassumption]).
  destruct (round_step b s5 d6 m6 Hb I5 T5 ltac:(assumption) C6) as (_ & _ & _ & _ & P6).
  apply P6.
  (* FSMMaxWeight / FSMGrowFactor^5 = FSMGrowFactor: the six steps are exactly enough because 4096 = 4^6 *)
  exact J5. Qed.

(* reachable states satisfy the timer bound when the clock never goes backwards *)
Definition ticks_nonneg (ops : list op) : Prop := Forall (fun o => match o with Tick d => 0 <= d | _ => True end) ops.

Lemma step_Tinv b s o : 0 <= b -> Inv s -> match o with Tick d => 0 <= d | _ => True end -> Tinv b s -> Tinv b (fst (step b s o)).
Proof. unfold Tinv. intros Hb HI Ho HT. destruct o as [k w|k|ms|d]; cbn.
  - destruct (upsert s k w) as [s'|] eqn:E; cbn; [|exact HT].
    destruct (upsert_cases s k w s' HI E) as (p & sh & cw & -> & HP & _).
    pose proof (reset_spec p sh (timer s) (now s) HP) as Hrs. cbv zeta in Hrs. destruct Hrs as (_ & (_ & _ & ->) & _ & _).
    unfold second. lia.
  - destruct (remove s k) as [s'|] eqn:E; cbn; [|exact HT].
    destruct (remove_cases s k s' HI E) as (r & _ & -> & HP).
    pose proof (reset_spec _ _ (timer s) (now s) HP) as Hrs. cbv zeta in Hrs. destruct Hrs as (_ & (_ & _ & ->) & _ & _).
    unfold second. lia.
  - destruct (serve_spec b s ms HI) as (_ & _ & Hn & _ & [[_ ->]|[_ ->]]); rewrite Hn; lia.
  - lia. Qed.

Lemma exec_Tinv b : 0 <= b -> forall ops s, Inv s -> ticks_nonneg ops -> Tinv b s -> Tinv b (exec (step b) s ops).
Proof. intros Hb. induction ops as [|o ops IH]; intros s HI Ht HT; cbn; [exact HT|]. inv Ht.
  apply IH; [apply step_Inv; exact HI|assumption|apply step_Tinv; assumption]. Qed.

Lemma Tinv_init b : 0 <= b -> Tinv b init.
Proof. unfold Tinv, init, zero_time. cbn. lia. Qed.

(* "otherwise the weights are unchanged" would be too strong: a good server of weight 0 "grows" to 0, which still
   triggers normalisation; the shares stay (keeps_step) but the weights are divided by their gcd *)
Lemma otherwise_weights_may_change : exists b ops ms,
  let s := exec (step b) init ops in
  both_classes (classify (shadow s) ms) (shadow s) /\
  ~ (exists r0, In r0 (shadow s) /\ growable (classify (shadow s) ms) r0) /\
  pool (fst (step b s (Adjust ms))) <> pool s.
Proof. exists second, [Upsert 1 (Some 2); Upsert 2 (Some 2); Upsert 1 (Some 0); Tick 1], [(1, true, 0); (2, true, 1024)].
  cbv zeta. split; [|split].
  - split; [exists {| skey := 1; orig := 0; cur := 0; good := false |}|exists {| skey := 2; orig := 2; cur := 2; good := false |}];
      vm_compute; auto.
  - intros (r0 & Hin & G & Hpos & _). vm_compute in Hin. destruct Hin as [<-|[<-|[]]].
    + vm_compute in Hpos. discriminate.
    + vm_compute in G. discriminate.
  - vm_compute. discriminate. Qed.
