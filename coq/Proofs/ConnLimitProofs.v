(* Invariants of the connection limiter model, for every well-formed history. *)
From Oxy Require Import Base.Prelude Model.ConnLimit.
Open Scope Z_scope.

(* ---------- association-list map facts ---------- *)
Definition keys (c : conns) := map fst c.
Definition wfmap (c : conns) := NoDup (keys c) /\ forall k v, In (k, v) c -> v <> 0.

Lemma get_notin c k : ~ In k (keys c) -> get c k = 0.
Proof. induction c as [|[k' v'] c IH]; cbn; intros H; [reflexivity|].
  destruct (Z.eqb_spec k k'); [subst; tauto|]. apply IH; tauto. Qed.

Lemma keys_set_incl c k v x : In x (keys (set c k v)) -> x = k \/ In x (keys c).
Proof. induction c as [|[k' v'] c IH]; cbn.
  - destruct (v =? 0); cbn; intuition congruence.
  - destruct (Z.eqb_spec k k').
    + destruct (v =? 0); cbn; intuition congruence.
    + cbn. intros [H|H]; [tauto|]. apply IH in H. tauto. Qed.

Lemma wfmap_set c k v : wfmap c -> wfmap (set c k v).
Proof. unfold wfmap. induction c as [|[k' v'] c IH]; cbn; intros [Hnd Hnz].
  - destruct (Z.eqb_spec v 0); cbn; split; try constructor; try constructor; cbn; try tauto.
    intros k0 v0 [H|[]]; congruence.
  - inv Hnd. destruct (Z.eqb_spec k k') as [->|Hne].
    + destruct (Z.eqb_spec v 0).
      * split; [assumption|]. intros; eapply Hnz; right; eassumption.
      * split; [cbn; constructor; assumption|]. intros k0 v0 [H|H]; [congruence|]. eapply Hnz; right; eassumption.
    + destruct IH as [IH1 IH2]. { split; [assumption|]. intros; eapply Hnz; right; eassumption. }
      split.
      * cbn. constructor; [|assumption]. intros Hin. apply keys_set_incl in Hin. destruct Hin; [congruence|tauto].
      * intros k0 v0 [H|H]; [inv H; eapply Hnz; left; reflexivity|]. eapply IH2; eassumption. Qed.

Lemma get_set_same c k v : NoDup (keys c) -> get (set c k v) k = v.
Proof. induction c as [|[k' v'] c IH]; cbn; intros Hnd.
  - destruct (Z.eqb_spec v 0); cbn; [congruence|]. rewrite Z.eqb_refl. reflexivity.
  - inv Hnd. destruct (Z.eqb_spec k k') as [->|Hne].
    + destruct (Z.eqb_spec v 0); [subst; apply get_notin; assumption|]. cbn. rewrite Z.eqb_refl. reflexivity.
    + cbn. destruct (Z.eqb_spec k k'); [congruence|]. apply IH; assumption. Qed.

Lemma get_set_other c k v k' : k <> k' -> get (set c k v) k' = get c k'.
Proof. induction c as [|[k0 v0] c IH]; cbn; intros Hne.
  - destruct (v =? 0); cbn; [reflexivity|]. destruct (Z.eqb_spec k' k); [congruence|reflexivity].
  - destruct (Z.eqb_spec k k0) as [->|Hne0].
    + destruct (v =? 0); cbn; destruct (Z.eqb_spec k' k0); congruence.
    + cbn. destruct (Z.eqb_spec k' k0); [reflexivity|]. apply IH; assumption. Qed.

Lemma wfmap_all_zero_nil c : wfmap c -> (forall k, get c k = 0) -> c = [].
Proof. destruct c as [|[k v] c]; [reflexivity|]. intros [_ Hnz] H. exfalso.
  specialize (H k). cbn in H. rewrite Z.eqb_refl in H. eapply Hnz; [left; reflexivity|assumption]. Qed.

(* ---------- ghost state: the requests currently inside the protected handler ---------- *)
Definition flight := list (Z * Z).   (* (source, amount) of every admitted, unfinished request *)

Fixpoint remove1 (f : flight) (t a : Z) : option flight :=
  match f with
  | [] => None
  | (t', a') :: f' => if (t =? t') && (a =? a') then Some f'
                      else match remove1 f' t a with Some r => Some ((t', a') :: r) | None => None end
  end.

Fixpoint sumfor (f : flight) (t : Z) : Z :=
  match f with [] => 0 | (t', a) :: f' => (if t =? t' then a else 0) + sumfor f' t end.
Fixpoint sumall (f : flight) : Z := match f with [] => 0 | (_, a) :: f' => a + sumall f' end.
Fixpoint nflight (f : flight) (t : Z) : nat :=
  match f with [] => 0%nat | (t', _) :: f' => ((if (t =? t')%Z then 1 else 0) + nflight f' t)%nat end.

(* a history is well formed when every Finish matches an admitted, unfinished Arrive *)
Definition gstep (maxc : Z) (g : st * flight) (o : op) : option (st * flight) :=
  match o with
  | Arrive t a => match acquire maxc (fst g) t a with
                  | None => Some g
                  | Some s' => Some (s', (t, a) :: snd g)
                  end
  | Finish t a _ => match remove1 (snd g) t a with
                    | None => None
                    | Some f' => Some (release (fst g) t a, f')
                    end
  | BadSource => Some g
  | Rewrap => Some g
  | Burst _ _ => Some g
  end.

Fixpoint gexec (maxc : Z) (g : st * flight) (ops : list op) : option (st * flight) :=
  match ops with
  | [] => Some g
  | o :: r => match gstep maxc g o with Some g' => gexec maxc g' r | None => None end
  end.

(* the ghost component does not influence the limiter *)
Lemma gstep_erase maxc g o g' : gstep maxc g o = Some g' -> fst g' = fst (step maxc (fst g) o).
Proof. destruct o as [t a|t a p| | |bt bk]; cbn.
  - destruct (acquire maxc (fst g) t a); intros H; inv H; reflexivity.
  - destruct (remove1 (snd g) t a); intros H; inv H; reflexivity.
  - intros H; inv H; reflexivity.
  - intros H; inv H; reflexivity.
  - intros H; inv H; reflexivity. Qed.

Lemma gexec_erase maxc ops : forall g g', gexec maxc g ops = Some g' -> fst g' = exec (step maxc) (fst g) ops.
Proof. induction ops as [|o r IH]; cbn; intros g g' H; [inv H; reflexivity|].
  destruct (gstep maxc g o) as [g1|] eqn:E; [|discriminate].
  rewrite (IH _ _ H). f_equal. eapply gstep_erase; eassumption. Qed.

Lemma remove1_sumfor f t a f' x : remove1 f t a = Some f' ->
  sumfor f x = (if x =? t then a else 0) + sumfor f' x.
Proof. revert f'; induction f as [|[t' a'] f IH]; cbn; intros f' H; [discriminate|].
  destruct ((t =? t') && (a =? a')) eqn:E.
  - inv H. apply andb_prop in E as [E1 E2]. apply Z.eqb_eq in E1, E2. subst. reflexivity.
  - destruct (remove1 f t a) as [r|]; [|discriminate]. inv H. cbn. rewrite (IH r eq_refl). lia. Qed.

Lemma remove1_sumall f t a f' : remove1 f t a = Some f' -> sumall f = a + sumall f'.
Proof. revert f'; induction f as [|[t' a'] f IH]; cbn; intros f' H; [discriminate|].
  destruct ((t =? t') && (a =? a')) eqn:E.
  - inv H. apply andb_prop in E as [E1 E2]. apply Z.eqb_eq in E2. subst. reflexivity.
  - destruct (remove1 f t a) as [r|]; [|discriminate]. inv H. cbn. rewrite (IH r eq_refl). lia. Qed.

Lemma remove1_nflight f t a f' x : remove1 f t a = Some f' ->
  nflight f x = ((if (x =? t)%Z then 1 else 0) + nflight f' x)%nat.
Proof. revert f'; induction f as [|[t' a'] f IH]; cbn; intros f' H; [discriminate|].
  destruct ((t =? t') && (a =? a')) eqn:E.
  - inv H. apply andb_prop in E as [E1 E2]. apply Z.eqb_eq in E1. subst. reflexivity.
  - destruct (remove1 f t a) as [r|]; [|discriminate]. inv H. cbn. rewrite (IH r eq_refl). lia. Qed.

Lemma remove1_all1 f t a f' : remove1 f t a = Some f' ->
  (forall x, In x f -> snd x = 1) -> (forall x, In x f' -> snd x = 1).
Proof. revert f'; induction f as [|[t' a'] f IH]; cbn; intros f' H Hall; [discriminate|].
  destruct ((t =? t') && (a =? a')).
  - inv H. intros; apply Hall; right; assumption.
  - destruct (remove1 f t a) as [r|]; [|discriminate]. inv H. intros x [<-|Hx].
    + apply (Hall (t', a')); left; reflexivity.
    + eapply IH; [reflexivity| |eassumption]. intros; apply Hall; right; assumption. Qed.

(* ---------- the invariant ---------- *)
Definition Inv (g : st * flight) : Prop :=
  wfmap (cs (fst g)) /\
  (forall t, get (cs (fst g)) t = sumfor (snd g) t) /\
  total (fst g) = sumall (snd g).

Lemma Inv_init : Inv (init, []).
Proof. repeat split; cbn; try constructor; tauto. Qed.

Lemma Inv_step maxc g o g' : Inv g -> gstep maxc g o = Some g' -> Inv g'.
Proof. destruct g as [s f]. unfold Inv. cbn [fst snd]. intros (Hwf & Hget & Htot). destruct o as [t a|t a p| | |bt bk]; cbn [gstep fst snd].
  - unfold acquire. destruct (maxc <=? get (cs s) t); intros H; inv H; cbn [fst snd cs total]; [auto|].
    split; [apply wfmap_set; assumption|]. split; [|cbn [sumall]; lia].
    intros x. cbn [sumfor]. destruct (Z.eqb_spec x t) as [->|Hne].
    + rewrite get_set_same by apply Hwf. rewrite Hget. lia.
    + rewrite get_set_other by congruence. rewrite Hget. lia.
  - destruct (remove1 f t a) as [f'|] eqn:E; intros H; inv H. unfold release. cbn [fst snd cs total].
    split; [apply wfmap_set; assumption|]. split.
    + intros x. pose proof (Hget x) as Hx. rewrite (remove1_sumfor _ _ _ _ x E) in Hx.
      destruct (Z.eqb_spec x t) as [Heq|Hne].
      * subst x. rewrite get_set_same by apply Hwf. lia.
      * rewrite get_set_other by congruence. lia.
    + rewrite (remove1_sumall _ _ _ _ E) in Htot. lia.
  - intros H; inv H. auto.
  - intros H; inv H. auto.
  - intros H; inv H. auto. Qed.

Lemma Inv_exec maxc ops : forall g g', Inv g -> gexec maxc g ops = Some g' -> Inv g'.
Proof. induction ops as [|o r IH]; cbn; intros g g' Hi H; [inv H; assumption|].
  destruct (gstep maxc g o) as [g1|] eqn:E; [|discriminate]. eapply IH; [|eassumption]. eapply Inv_step; eassumption. Qed.

(* ---------- the bound ---------- *)
Definition amounts_in (A : Z) (ops : list op) : Prop := forall t a, In (Arrive t a) ops -> 1 <= a <= A.

Definition Bnd (maxc A : Z) (g : st * flight) : Prop :=
  (forall x, In x (snd g) -> 1 <= snd x <= A) /\ (forall t, sumfor (snd g) t <= Z.max 0 (maxc - 1 + A)).

Lemma remove1_in f t a f' : remove1 f t a = Some f' -> In (t, a) f /\ (forall x, In x f' -> In x f).
Proof. revert f'; induction f as [|[t' a'] f IH]; cbn; intros f' E; [discriminate|].
  destruct ((t =? t') && (a =? a')) eqn:E2.
  - inv E. apply andb_prop in E2 as [E1 E2]. apply Z.eqb_eq in E1, E2. subst. split; [left; reflexivity|intros; right; assumption].
  - destruct (remove1 f t a) as [r|]; [|discriminate]. inv E. destruct (IH r eq_refl) as [I1 I2].
    split; [right; assumption|]. intros x [<-|Hx]; [left; reflexivity|right; apply I2; assumption]. Qed.

Lemma Bnd_step maxc A g o g' :
  Inv g -> Bnd maxc A g -> (forall t a, o = Arrive t a -> 1 <= a <= A) -> gstep maxc g o = Some g' -> Bnd maxc A g'.
Proof. destruct g as [s f]. unfold Inv, Bnd. cbn [fst snd]. intros (Hwf & Hget & Htot) [H1 Hb] Hu.
  destruct o as [t a|t a p| | |bt bk]; cbn [gstep fst snd].
  - unfold acquire. destruct (Z.leb_spec maxc (get (cs s) t)) as [Hle|Hlt]; intros Hs; inv Hs; cbn [fst snd]; [auto|].
    specialize (Hu t a eq_refl). split.
    + intros x [<-|Hx]; [exact Hu|apply H1; assumption].
    + intros x. cbn [sumfor]. destruct (Z.eqb_spec x t) as [Heq|Hne].
      * subst x. rewrite <- Hget. lia.
      * specialize (Hb x). lia.
  - destruct (remove1 f t a) as [f'|] eqn:E; intros Hs; inv Hs. cbn [fst snd].
    destruct (remove1_in _ _ _ _ E) as [Hin Hsub]. split.
    + intros x Hx. apply H1, Hsub, Hx.
    + intros x. specialize (Hb x). rewrite (remove1_sumfor _ _ _ _ x E) in Hb.
      specialize (H1 _ Hin). cbn in H1. destruct (x =? t); lia.
  - intros Hs; inv Hs. auto.
  - intros Hs; inv Hs. auto.
  - intros Hs; inv Hs. auto. Qed.

Lemma Bnd_exec maxc A ops : forall g g',
  Inv g -> Bnd maxc A g -> amounts_in A ops -> gexec maxc g ops = Some g' -> Bnd maxc A g'.
Proof. induction ops as [|o r IH]; cbn [gexec]; intros g g' Hi Hb Hu H; [inv H; assumption|].
  destruct (gstep maxc g o) as [g1|] eqn:E; [|discriminate]. eapply IH; [| | |eassumption].
  - eapply Inv_step; eassumption.
  - eapply Bnd_step; try eassumption. intros t a ->. apply (Hu t a). left; reflexivity.
  - intros t a Hin. apply (Hu t a). right; assumption. Qed.

Lemma Bnd_init maxc A : Bnd maxc A (init, []).
Proof. split; cbn; [tauto|intros; lia]. Qed.

Theorem bound_amounts maxc A ops s f :
  amounts_in A ops -> gexec maxc (init, []) ops = Some (s, f) ->
  forall t, sumfor f t <= Z.max 0 (maxc - 1 + A).
Proof. intros Hu H. apply (Bnd_exec _ _ _ _ _ Inv_init (Bnd_init maxc A) Hu H). Qed.

Definition unit_amounts (ops : list op) : Prop := forall t a, In (Arrive t a) ops -> a = 1.

Lemma sumfor_nflight f t : (forall x, In x f -> snd x = 1) -> sumfor f t = Z.of_nat (nflight f t).
Proof. induction f as [|[t' a] f IH]; cbn [sumfor nflight]; intros H; [reflexivity|].
  rewrite IH by (intros; apply H; right; assumption).
  specialize (H (t', a) (or_introl eq_refl)). cbn in H. subst. destruct (t =? t'); lia. Qed.

Theorem bound maxc ops s f :
  unit_amounts ops -> gexec maxc (init, []) ops = Some (s, f) ->
  forall t, Z.of_nat (nflight f t) <= Z.max 0 maxc.
Proof. intros Hu H t.
  assert (Hu' : amounts_in 1 ops). { intros t0 a Hin. rewrite (Hu t0 a Hin). lia. }
  destruct (Bnd_exec _ _ _ _ _ Inv_init (Bnd_init maxc 1) Hu' H) as [H1 Hb]. cbn [snd] in *.
  rewrite <- sumfor_nflight; [specialize (Hb t); lia|]. intros x Hx. specialize (H1 x Hx). lia. Qed.

(* ---------- rejected only when full ---------- *)
Theorem reject_iff_full maxc ops s f t a :
  gexec maxc (init, []) ops = Some (s, f) ->
  (snd (step maxc s (Arrive t a)) = [429; 0] <-> maxc <= sumfor f t).
Proof. intros H. pose proof (Inv_exec _ _ _ _ Inv_init H) as (Hwf & Hget & _). cbn in *.
  unfold acquire. rewrite <- Hget. destruct (Z.leb_spec maxc (get (cs s) t)); cbn; split; intros; try lia; try reflexivity; discriminate. Qed.

(* ---------- release regardless of how the handler ended ---------- *)
Theorem release_always maxc s t a : step maxc s (Finish t a true) = step maxc s (Finish t a false).
Proof. reflexivity. Qed.

(* ---------- after draining, the limiter is as new ---------- *)
Theorem drained_is_init maxc ops s : gexec maxc (init, []) ops = Some (s, []) -> s = init.
Proof. intros H. pose proof (Inv_exec _ _ _ _ Inv_init H) as (Hwf & Hget & Htot). cbn in *.
  destruct s as [c tot]. cbn in *. subst tot. unfold init. rewrite (wfmap_all_zero_nil c Hwf Hget). reflexivity. Qed.

Lemma admits_from maxc t : forall n s, wfmap (cs s) -> get (cs s) t + Z.of_nat n <= maxc ->
  run_from (step maxc) s (repeat (Arrive t 1) n) =
  map (fun i => [200; get (cs s) t + Z.of_nat i + 1]) (seq 0 n).
Proof. induction n as [|n IH]; intros s Hwf Hle; cbn [repeat seq map run_from]; [reflexivity|].
  cbn [step]. unfold acquire. destruct (Z.leb_spec maxc (get (cs s) t)); [lia|].
  cbn [cs]. rewrite get_set_same by apply Hwf. f_equal; [f_equal; f_equal; lia|].
  rewrite IH.
  - cbn [cs]. rewrite get_set_same by apply Hwf. rewrite <- seq_shift, map_map. apply map_ext. intros i. f_equal. f_equal. lia.
  - cbn [cs]. apply wfmap_set; assumption.
  - cbn [cs]. rewrite get_set_same by apply Hwf. lia. Qed.

Theorem drain_full_capacity maxc ops s t n :
  gexec maxc (init, []) ops = Some (s, []) -> Z.of_nat n <= maxc ->
  run_from (step maxc) s (repeat (Arrive t 1) n) = map (fun i => [200; Z.of_nat i + 1]) (seq 0 n).
Proof. intros H Hn. rewrite (drained_is_init _ _ _ H). rewrite admits_from; cbn; [reflexivity| |lia].
  split; [constructor|tauto]. Qed.

(* ---------- non-interference between sources (C14, connection limiter) ---------- *)
Definition op_tok (o : op) : option Z := match o with Arrive t _ => Some t | Finish t _ _ => Some t | BadSource => None | Rewrap => None | Burst t _ => Some t end.
Definition is_tok (t : Z) (o : op) : bool := match op_tok o with Some t' => t' =? t | None => false end.

(* the outputs a source observes in an interleaved history: those of its own operations *)
Fixpoint outs_of (t maxc : Z) (s : st) (ops : list op) : list (list Z) :=
  match ops with
  | [] => []
  | o :: r => let '(s', out) := step maxc s o in
              if is_tok t o then out :: outs_of t maxc s' r else outs_of t maxc s' r
  end.

Lemma wfmap_step maxc s o : wfmap (cs s) -> wfmap (cs (fst (step maxc s o))).
Proof. intros H. destruct o as [t a|t a p| | |bt bk]; cbn [step].
  - unfold acquire. destruct (maxc <=? get (cs s) t); cbn [fst cs]; [assumption|apply wfmap_set; assumption].
  - cbn [fst release cs]. apply wfmap_set; assumption.
  - assumption.
  - assumption.
  - assumption. Qed.

Theorem conn_noninterference maxc t : forall ops s s',
  wfmap (cs s) -> wfmap (cs s') -> get (cs s) t = get (cs s') t ->
  outs_of t maxc s ops = run_from (step maxc) s' (filter (is_tok t) ops).
Proof. induction ops as [|o ops IH]; intros s s' Hw Hw' Hg; [reflexivity|].
  cbn [outs_of filter]. destruct (step maxc s o) as [s1 out] eqn:E.
  assert (Hw1 : wfmap (cs s1)) by (pose proof (wfmap_step maxc s o Hw) as W; rewrite E in W; exact W).
  unfold is_tok. destruct o as [t0 a|t0 a p| | |t0 bk]; cbn [op_tok].
  - destruct (Z.eqb_spec t0 t) as [->|Hne].
    + cbn [run_from]. cbn [step] in E |- *. unfold acquire in *. rewrite <- Hg.
      destruct (maxc <=? get (cs s) t); inv E.
      * f_equal. apply IH; assumption.
      * cbn [cs]. rewrite !get_set_same by (apply Hw || apply Hw'). f_equal.
        apply IH; cbn [cs]; try (apply wfmap_set; assumption). rewrite !get_set_same by (apply Hw || apply Hw'). reflexivity.
    + apply IH; try assumption. cbn [step] in E. unfold acquire in E. destruct (maxc <=? get (cs s) t0); inv E; [assumption|].
      cbn [cs]. rewrite get_set_other by assumption. assumption.
  - destruct (Z.eqb_spec t0 t) as [->|Hne].
    + cbn [run_from step]. cbn [step] in E. inv E. f_equal.
      apply IH; cbn [release cs]; try (apply wfmap_set; assumption). rewrite !get_set_same by (apply Hw || apply Hw'). congruence.
    + apply IH; try assumption. cbn [step] in E. inv E. cbn [release cs]. rewrite get_set_other by assumption. assumption.
  - cbn [step] in E. inv E. apply IH; assumption.
  - cbn [step] in E. inv E. apply IH; assumption.
  - cbn [step] in E. inv E. destruct (Z.eqb_spec t0 t) as [->|Hne].
    + cbn [run_from step]. rewrite Hg. f_equal. apply IH; assumption.
    + apply IH; assumption. Qed.

(* ---------- a burst of simultaneous arrivals ---------- *)
Definition admitted_count (outs : list (list Z)) : Z :=
  Z.of_nat (length (filter (fun o => match o with 200 :: _ => true | _ => false end) outs)).

(* k arrivals of one source with nothing finishing in between: exactly the free slots are filled, in whatever
   order the (identical) arrivals take their turns in the critical section *)
Lemma sequential_burst maxc t : forall n s, wfmap (cs s) ->
  admitted_count (run_from (step maxc) s (repeat (Arrive t 1) n)) =
  Z.min (Z.of_nat n) (Z.max 0 (maxc - get (cs s) t)).
Proof. induction n as [|n IH]; intros s Hw; [cbn; lia|].
  cbn [repeat run_from step]. unfold acquire. destruct (Z.leb_spec maxc (get (cs s) t)) as [Hle|Hlt].
  - unfold admitted_count in *. cbn [filter]. rewrite (IH s Hw). lia.
  - unfold admitted_count in *. cbn [filter length]. rewrite Nat2Z.inj_succ.
    rewrite IH by (cbn [cs]; apply wfmap_set; assumption).
    cbn [cs]. rewrite get_set_same by apply Hw. lia. Qed.

Theorem burst_is_sequential maxc ops s f t k :
  gexec maxc (init, []) ops = Some (s, f) -> 0 <= k ->
  snd (step maxc s (Burst t k)) = [admitted_count (run_from (step maxc) s (repeat (Arrive t 1) (Z.to_nat k)))] /\
  fst (step maxc s (Burst t k)) = s /\
  admitted_count (run_from (step maxc) s (repeat (Arrive t 1) (Z.to_nat k))) = Z.min k (Z.max 0 (maxc - sumfor f t)).
Proof. intros H Hk. pose proof (Inv_exec _ _ _ _ Inv_init H) as (Hwf & Hget & _). cbn [fst snd] in *.
  rewrite sequential_burst by assumption. rewrite Z2Nat.id by assumption. rewrite Hget.
  cbn [step fst snd]. rewrite Hget. repeat split; try reflexivity. f_equal. lia. Qed.

(* ---------- a limiter that gets its handler later (Wrap after requests have arrived) ---------- *)
(* an arrival before Wrap that is admitted fails in the missing handler and gives its slot back: it leaves no trace *)
Lemma unwrapped_arrival_neutral maxc s t a s1 : wfmap (cs s) -> acquire maxc s t a = Some s1 ->
  let s2 := fst (step maxc s1 (Finish t a true)) in
  (forall k, get (cs s2) k = get (cs s) k) /\ total s2 = total s /\ wfmap (cs s2).
Proof. intros Hwf H. unfold acquire in H. destruct (maxc <=? get (cs s) t); [discriminate|]. inv H.
  cbn [step fst release cs total]. split; [|split; [lia|]].
  - intros k. destruct (Z.eq_dec t k) as [->|Hne].
    + rewrite get_set_same by (apply wfmap_set, Hwf). rewrite get_set_same by exact (proj1 Hwf). lia.
    + rewrite !get_set_other by exact Hne. reflexivity.
  - apply wfmap_set, wfmap_set, Hwf.
Qed.

(* hence the whole phase before Wrap: whatever arrives, every arrival is answered by what the limiter had in flight before
   the phase (429 if the source was full, otherwise the failing call), and the limiter reaches Wrap with exactly the
   accounting it started with: the ordinary run continues from there *)
Definition unwrapped_answer (maxc : Z) (s : st) (l : list Z) : list Z :=
  match l with [0; t; a] => if maxc <=? get (cs s) t then [429; 0] else [-1; 0] | _ => [] end.

Lemma run_unwrapped_prefix maxc : forall ops s, wfmap (cs s) ->
  Forall (fun l => exists t a, l = [0; t; a]) ops ->
  forall rest, exists s', wfmap (cs s') /\ (forall k, get (cs s') k = get (cs s) k) /\ total s' = total s /\
    run_unwrapped maxc s (ops ++ [4] :: rest) =
    map (unwrapped_answer maxc s) ops ++ [] :: run_from (step maxc) s' (map decode_op rest).
Proof. induction ops as [|l ops IH]; intros s Hwf Hall rest.
  - exists s. cbn. auto.
  - inversion Hall as [|x xs Hx Hxs]; subst. destruct Hx as (t & a & ->).
    cbn [app map unwrapped_answer].
    change (run_unwrapped maxc s ([0; t; a] :: ops ++ [4] :: rest)) with
      (match acquire maxc s t a with
       | None => [429; 0] :: run_unwrapped maxc s (ops ++ [4] :: rest)
       | Some s1 => [-1; 0] :: run_unwrapped maxc (fst (step maxc s1 (Finish t a true))) (ops ++ [4] :: rest)
       end).
    destruct (acquire maxc s t a) as [s1|] eqn:Ea.
    + destruct (unwrapped_arrival_neutral maxc s t a s1 Hwf Ea) as (G & T & W). cbn zeta in G, T, W.
      destruct (IH _ W Hxs rest) as (s' & W' & G' & T' & R). exists s'.
      split; [exact W'|]. split; [intros k; rewrite G', G; reflexivity|]. split; [lia|].
      unfold acquire in Ea. destruct (maxc <=? get (cs s) t); [discriminate|].
      rewrite R. f_equal. f_equal. apply map_ext. intros l. unfold unwrapped_answer.
      destruct l as [|z [|t' [|a' [|? ?]]]]; try reflexivity. destruct z; try reflexivity. rewrite G. reflexivity.
    + destruct (IH s Hwf Hxs rest) as (s' & W' & G' & T' & R). exists s'.
      unfold acquire in Ea. destruct (maxc <=? get (cs s) t); [|discriminate].
      rewrite R. auto.
Qed.

(* a request weighed 0 (an extractor may say so): rejected exactly when its source is at the limit, and when admitted it
   changes nothing for anybody (its Finish gives back the same nothing) *)
Lemma zero_weight_request maxc s t : wfmap (cs s) ->
  match acquire maxc s t 0 with
  | None => maxc <= get (cs s) t
  | Some s' => get (cs s) t < maxc /\ (forall k, get (cs s') k = get (cs s) k) /\ total s' = total s /\
               (forall k, get (cs (release s' t 0)) k = get (cs s) k)
  end.
Proof. intros Hwf. unfold acquire. destruct (Z.leb_spec maxc (get (cs s) t)) as [H|H]; [exact H|].
  cbn [cs total]. split; [exact H|].
  assert (G : forall k, get (set (cs s) t (get (cs s) t + 0)) k = get (cs s) k).
  { intros k. destruct (Z.eq_dec t k) as [->|Hne].
    - rewrite get_set_same by exact (proj1 Hwf). lia.
    - rewrite get_set_other by exact Hne. reflexivity. }
  split; [exact G|]. split; [lia|].
  intros k. unfold release. cbn [cs]. destruct (Z.eq_dec t k) as [->|Hne].
  - rewrite get_set_same by (apply wfmap_set, Hwf). rewrite G. lia.
  - rewrite get_set_other by exact Hne. apply G.
Qed.
