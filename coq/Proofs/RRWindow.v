(* C01 window theorem on the slot view, for the Go loop with fuel 2*n (the loop meets a selected slot
   within two sweeps because the heaviest server is selected in every row). *)
From Coq Require Import ZArith List Arith Lia Bool.
Import ListNotations.
From Oxy Require Import Base.Prelude Model.RR Proofs.RRCount Proofs.RRSlots Proofs.RRLoop.
Close Scope Z_scope.

(* ---- generic sums ---- *)
Lemma list_sum_map_add {A} (f h : A -> nat) l :
  list_sum (map (fun x => f x + h x) l) = list_sum (map f l) + list_sum (map h l).
Proof. unfold list_sum. induction l as [|x l IH]; cbn [map fold_right]; [reflexivity|]. rewrite IH. lia. Qed.

Lemma list_sum_pick (b : bool) c a len :
  list_sum (map (fun i => if b && (c =? i) then 1 else 0) (seq a len)) =
  if b && (a <=? c) && (c <? a + len) then 1 else 0.
Proof. unfold list_sum. revert a; induction len as [|len IH]; intros a; cbn [seq map fold_right].
  - destruct b; cbn [andb]; [|reflexivity].
    destruct (Nat.leb_spec a c), (Nat.ltb_spec c (a + 0)); cbn [andb]; try reflexivity; lia.
  - rewrite IH. destruct b; cbn [andb]; [|reflexivity].
    destruct (Nat.eqb_spec c a), (Nat.leb_spec (S a) c), (Nat.leb_spec a c), (Nat.ltb_spec c (S a + len)),
      (Nat.ltb_spec c (a + S len)); cbn [andb]; try reflexivity; lia.
Qed.

Lemma map_nth_seq {A} (d : A) (b : list A) : forall a,
  map (fun i => nth i (a ++ b) d) (seq (length a) (length b)) = b.
Proof. induction b as [|x b IH]; intros a; [reflexivity|]. cbn [length seq map].
  rewrite app_nth2, Nat.sub_diag by lia. cbn [nth]. f_equal.
  specialize (IH (a ++ [x])). rewrite app_length, <- app_assoc in IH. cbn in IH.
  rewrite Nat.add_1_r in IH. exact IH. Qed.

Lemma zsum_div_exact g l : (0 < g)%Z -> (forall w, In w l -> exists q, w = (g * q)%Z) ->
  zsum (map (fun w => (w / g)%Z) l) = (zsum l / g)%Z.
Proof. intros Hg. induction l as [|w l IH]; intros H; cbn [map zsum]; [rewrite Z.div_0_l by lia; reflexivity|].
  rewrite IH by (intros; apply H; right; assumption).
  destruct (H w (or_introl eq_refl)) as (q & ->).
  rewrite (Z.mul_comm g q), Z.div_add_l, Z.div_mul by lia. reflexivity. Qed.

Section Window.
Variable ws : list Z.
Variable g m : Z.
Variable M : nat.
Let n := length ws.
Hypothesis n_pos : 0 < n.
Hypothesis M_pos : 0 < M.
Hypothesis g_pos : (0 < g)%Z.
Hypothesis m_eq : (m = g * Z.of_nat M)%Z.
Hypothesis ws_div : forall i, i < n -> exists q, (0 <= q <= Z.of_nat M /\ nth i ws 0 = g * q)%Z.
Hypothesis some_pos : exists i, i < n /\ (0 < nth i ws 0)%Z.
Hypothesis m_att : exists j, j < n /\ nth j ws 0%Z = m.

Notation col := (col ws).
Notation sel := (sel ws g m M).
Notation seli := (seli ws g m M).
Notation P := (P ws M).
Notation run := (run ws g m).
Notation pre := (pre ws g m M).
Notation sels := (sels ws g m M).

Definition W := cnt sel 0 P.

Lemma cnt_sel_ge i s len : cnt (seli i) s len <= cnt sel s len.
Proof. revert s; induction len as [|len IH]; intros s; [reflexivity|].
  rewrite !cnt_S. specialize (IH (S s)). unfold RRSlots.seli at 1. destruct (sel s); cbn; [|lia].
  destruct (RRSlots.col ws s =? i); lia. Qed.

Lemma W_pos s : 0 < cnt sel s P.
Proof. destruct some_pos as (i & Hi & Hw).
  pose proof (cnt_window ws g m M n_pos M_pos g_pos m_eq ws_div i s Hi) as H.
  pose proof (cnt_sel_ge i s P).
  destruct (ws_div i Hi) as (q & Hq & E). unfold wt in H. rewrite E in *.
  rewrite Z.mul_comm, Z.div_mul in H by lia. nia. Qed.

Lemma W_any s : cnt sel s P = W.
Proof. apply cnt_periodic. apply (sel_period ws g m M n_pos M_pos). Qed.

Lemma cnt_pos_hit (f : nat -> bool) s len : 0 < cnt f s len -> exists d, d < len /\ f (s + d) = true.
Proof. revert s; induction len as [|len IH]; intros s H; [cbn in H; lia|].
  rewrite cnt_S in H. destruct (f s) eqn:E.
  - exists 0. rewrite Nat.add_0_r. split; [lia|exact E].
  - destruct (IH (S s) ltac:(lia)) as (d & Hd & Hf). exists (S d). split; [lia|].
    replace (s + S d) with (S s + d) by lia. exact Hf. Qed.

Lemma gap s : exists d, d < P /\ sel (s + d) = true.
Proof. apply cnt_pos_hit, W_pos. Qed.

(* the heaviest server is selected in every row, so a selected slot is never more than two sweeps away *)
Lemma gap2 s : exists d, d < 2 * n /\ sel (s + d) = true.
Proof.
  destruct m_att as (j & Hj & Hw).
  assert (Hn : n <> 0) by lia.
  pose proof (Nat.div_mod s n Hn) as E. pose proof (Nat.mod_upper_bound s n Hn) as B.
  set (q := s / n) in *. set (c := s mod n) in *.
  exists (n - c + j). split; [lia|].
  assert (Et : s + (n - c + j) = (q + 1) * n + j) by lia. rewrite Et.
  unfold RRSlots.sel, RRSlots.col, RRSlots.row, RRSlots.lvl, RRSlots.wt. fold n.
  assert (Hc : ((q + 1) * n + j) mod n = j).
  { symmetry. apply Nat.mod_unique with (q := q + 1); lia. }
  rewrite Hc, Hw. apply Z.leb_le. nia.
Qed.

(* the first selected slot at or after s is less than 2n away *)
Lemma first_hit s : exists d, d < 2 * n /\ (forall j, j < d -> sel (s + j) = false) /\ sel (s + d) = true.
Proof.
  destruct (filter_first sel (2 * n) s) as [Hnone|(d & Hd & Hno & Hyes & _)].
  - destruct (gap2 s) as (d & Hd & Hs). rewrite Hnone in Hs by assumption. discriminate.
  - exists d. auto.
Qed.

(* one call of nextServer from the state before slot t: it returns (never errs, never runs out of the
   fuel 2n) the first selected slot, and leaves the state before the slot after it *)
Lemma loop_total t i cw : pre t i cw ->
  exists d, sel (t + d) = true /\ (forall j, j < d -> sel (t + j) = false) /\
    next_loop ws g m (2 * n) i cw = Sel (Z.of_nat (col (t + d))) (RRSlots.lvl g m (RRSlots.row ws M (t + d))) /\
    pre (S (t + d)) (Z.of_nat (col (t + d))) (RRSlots.lvl g m (RRSlots.row ws M (t + d))).
Proof. intros Hp. destruct (first_hit t) as (d & Hd & Hno & Hyes). exists d. repeat split; auto.
  - apply (loop_first ws g m M n_pos M_pos g_pos m_eq d t i cw (2 * n) Hp Hno Hyes Hd).
  - apply (pre_next ws g m M n_pos M_pos).
Qed.

(* fuel 2n is always enough: the Go loop terminates within two sweeps *)
Lemma run_sels_F len : forall s i cw, pre s i cw ->
  run (2 * n) (cnt sel s len) i cw = Some (sels s len).
Proof. induction len as [len IH] using lt_wf_ind. intros s i cw Hp.
  destruct (filter_first sel len s) as [Hnone|(d & Hd & Hno & Hyes & Hf)].
  - unfold cnt, RRLoop.sels. rewrite filter_none by assumption. reflexivity.
  - assert (HdP : d < 2 * n).
    { destruct (gap2 s) as (d' & Hd' & Hs'). destruct (Nat.lt_ge_cases d' d); [|lia].
      rewrite Hno in Hs' by assumption. discriminate. }
    unfold cnt, RRLoop.sels. rewrite Hf. cbn [length map RRLoop.run].
    rewrite (loop_first ws g m M n_pos M_pos g_pos m_eq d s i cw (2 * n) Hp Hno Hyes HdP).
    replace (s + d + 1) with (S (s + d)) by lia.
    specialize (IH (len - d - 1) ltac:(lia) (S (s + d)) _ _ (pre_next ws g m M n_pos M_pos (s + d))).
    unfold cnt, RRLoop.sels in IH. rewrite IH. reflexivity.
Qed.

Lemma reach t k : exists len, cnt sel t len = k.
Proof. induction k as [|k (len & IH)]; [exists 0; reflexivity|].
  destruct (filter_first sel P (t + len)) as [Hnone|(d & Hd & Hno & Hyes & Hf)].
  - destruct (gap (t + len)) as (d & Hd & Hs). rewrite Hnone in Hs by assumption. discriminate.
  - exists (len + (d + 1)). rewrite cnt_app, IH.
    replace (d + 1) with (S d) by lia. rewrite cnt_snoc.
    unfold cnt at 1. rewrite filter_none by assumption. rewrite Hyes. cbn; lia. Qed.

Definition occ (i : nat) (l : list Z) : nat := length (filter (fun c => (c =? Z.of_nat i)%Z) l).

Lemma occ_sels i s len : occ i (sels s len) = cnt (seli i) s len.
Proof. unfold occ, RRLoop.sels, cnt. induction (seq s len) as [|t l IH]; [reflexivity|].
  cbn [filter]. unfold RRSlots.seli at 1. destruct (sel t); cbn [andb map filter]; [|exact IH].
  destruct (Z.eqb_spec (Z.of_nat (col t)) (Z.of_nat i)), (Nat.eqb_spec (col t) i);
    try lia; cbn [length]; rewrite IH; reflexivity. Qed.

Lemma sels_app s a b : sels s (a + b) = sels s a ++ sels (s + a) b.
Proof. unfold RRLoop.sels. rewrite seq_app, filter_app, map_app. reflexivity. Qed.

(* every selection is a slot whose column has positive weight *)
Lemma sels_pos s len : Forall (fun c => exists i, c = Z.of_nat i /\ i < n /\ (0 < nth i ws 0)%Z) (sels s len).
Proof. unfold RRLoop.sels. apply Forall_forall. intros c Hc. apply in_map_iff in Hc.
  destruct Hc as (t & <- & Ht). apply filter_In in Ht. destruct Ht as [_ Ht].
  exists (col t). split; [reflexivity|]. split; [apply (col_lt ws M n_pos M_pos)|].
  unfold RRSlots.sel in Ht. apply Z.leb_le in Ht.
  pose proof (lvl_pos ws g m M n_pos M_pos g_pos m_eq (RRSlots.row ws M t) (row_lt ws M n_pos M_pos t)).
  unfold RRSlots.wt in Ht. lia. Qed.

(* C01 on the slot view: from the state before any slot t (t = 0: right after a pool change), selections
   number k+1 .. k+W contain server i exactly w_i/g times; the loop never runs out of fuel 2n and never errs. *)
Theorem window_from t i0 cw0 k : pre t i0 cw0 ->
  exists before win,
    run (2 * n) (k + W) i0 cw0 = Some (before ++ win) /\
    length before = k /\ length win = W /\
    (forall i, i < n -> Z.of_nat (occ i win) = (nth i ws 0 / g)%Z) /\
    Forall (fun c => exists i, c = Z.of_nat i /\ i < n /\ (0 < nth i ws 0)%Z) (before ++ win).
Proof.
  intros Hpre. destruct (reach t k) as (len & Hk).
  exists (sels t len), (sels (t + len) P).
  pose proof (run_sels_F (len + P) t _ _ Hpre) as R.
  rewrite cnt_app, Hk, W_any, sels_app in R.
  split; [exact R|]. split; [|split; [|split]].
  - unfold RRLoop.sels. rewrite map_length. exact Hk.
  - unfold RRLoop.sels. rewrite map_length. apply W_any.
  - intros i Hi. rewrite occ_sels.
    apply (cnt_window ws g m M n_pos M_pos g_pos m_eq ws_div i (t + len) Hi).
  - rewrite <- sels_app. apply sels_pos.
Qed.

(* W, the number of selected slots per period, is sum w_i / g *)
Lemma cnt_sel_split s len : cnt sel s len = list_sum (map (fun i => cnt (seli i) s len) (seq 0 n)).
Proof. revert s; induction len as [|len IH]; intros s.
  - unfold cnt; cbn. induction (seq 0 n); cbn; auto.
  - rewrite (map_ext _ (fun i => (if seli i s then 1 else 0) + cnt (seli i) (S s) len)) by (intros; apply cnt_S).
    rewrite cnt_S, IH.
    rewrite list_sum_map_add. f_equal. unfold RRSlots.seli. rewrite list_sum_pick.
    pose proof (col_lt ws M n_pos M_pos s) as Hc. fold n in Hc.
    destruct (sel s); cbn [andb]; [|reflexivity].
    destruct (Nat.ltb_spec (col s) (0 + n)); [reflexivity|lia].
Qed.

Lemma W_sum : Z.of_nat W = (zsum ws / g)%Z.
Proof. unfold W. rewrite cnt_sel_split.
  assert (E : forall l, (forall i, In i l -> i < n) ->
    Z.of_nat (list_sum (map (fun i => cnt (seli i) 0 P) l)) = zsum (map (fun i => (nth i ws 0 / g)%Z) l)).
  { induction l as [|i l IH]; intros Hl; [reflexivity|]. cbn [map zsum].
    change (list_sum (cnt (seli i) 0 P :: map (fun i0 => cnt (seli i0) 0 P) l))
      with (cnt (seli i) 0 P + list_sum (map (fun i0 => cnt (seli i0) 0 P) l)).
    rewrite Nat2Z.inj_add, IH by (intros; apply Hl; right; assumption).
    rewrite (cnt_window ws g m M n_pos M_pos g_pos m_eq ws_div i 0) by (apply Hl; left; reflexivity).
    reflexivity. }
  rewrite E by (intros i Hi; apply in_seq in Hi; lia).
  rewrite <- (map_map (fun i => nth i ws 0%Z) (fun w => (w / g)%Z)).
  pose proof (map_nth_seq 0%Z ws []) as Hn. cbn [app length] in Hn. fold n in Hn. rewrite Hn.
  apply zsum_div_exact; [exact g_pos|].
  intros w Hw. destruct (In_nth _ _ 0%Z Hw) as (i & Hi & <-).
  destruct (ws_div i Hi) as (q & _ & Hq). exists q. exact Hq.
Qed.

End Window.

