(* Slot view of the weighted round-robin sweep: slot t = (row (t/n) mod M, column t mod n); row r has level m - g*r;
   a slot is selected iff its column's weight reaches the level. Any n*M consecutive slots hold exactly w_i/g selected slots of column i. *)
From Coq Require Import ZArith List Arith Lia Bool.
Import ListNotations.
From Oxy Require Import Proofs.RRCount.

Section Slots.
Variable ws : list Z.
Variable g m : Z.
Variable M : nat.
Let n := length ws.
Hypothesis n_pos : 0 < n.
Hypothesis M_pos : 0 < M.
Hypothesis g_pos : (0 < g)%Z.
Hypothesis m_eq : (m = g * Z.of_nat M)%Z.
Hypothesis ws_div : forall i, i < n -> exists q, (0 <= q <= Z.of_nat M /\ nth i ws 0 = g * q)%Z.

Definition wt (i : nat) : Z := nth i ws 0%Z.
Definition col (t : nat) := t mod n.
Definition row (t : nat) := (t / n) mod M.
Definition lvl (r : nat) : Z := (m - g * Z.of_nat r)%Z.
Definition sel (t : nat) : bool := (lvl (row t) <=? wt (col t))%Z.
Definition seli (i t : nat) : bool := sel t && (col t =? i).
Definition P := n * M.

Lemma col_period t : col (t + P) = col t.
Proof. unfold col, P. rewrite (Nat.mul_comm n M), Nat.mod_add by lia. reflexivity. Qed.

Lemma row_period t : row (t + P) = row t.
Proof. unfold row, P. rewrite (Nat.mul_comm n M), Nat.div_add by lia.
  rewrite <- (Nat.mul_1_l M) at 1. rewrite Nat.mod_add by lia. reflexivity. Qed.

Lemma seli_period i t : seli i (t + P) = seli i t.
Proof. unfold seli, sel. rewrite col_period, row_period. reflexivity. Qed.

Lemma sel_period t : sel (t + P) = sel t.
Proof. unfold sel. rewrite col_period, row_period. reflexivity. Qed.

(* one row *)
Lemma cnt_shift (F : nat -> bool) s len : cnt (fun t => F (t - s)) s len = cnt F 0 len.
Proof. revert s; induction len as [|len IH]; intros s; [reflexivity|].
  rewrite !cnt_snoc, IH. replace (s + len - s) with (0 + len) by lia. reflexivity. Qed.

Lemma cnt_pick (b : nat -> bool) i len :
  cnt (fun c => b c && (c =? i)) 0 len = if (i <? len) then (if b i then 1 else 0) else 0.
Proof. induction len as [|len IH]; [reflexivity|].
  rewrite cnt_snoc, IH. cbn [plus].
  destruct (Nat.ltb_spec i len), (Nat.ltb_spec i (S len)); try lia.
  - destruct (Nat.eqb_spec len i); try lia. rewrite andb_false_r. lia.
  - assert (len = i) by lia; subst. rewrite Nat.eqb_refl, andb_true_r. lia.
  - destruct (Nat.eqb_spec len i); try lia. rewrite andb_false_r. lia.
Qed.

Lemma cnt_row i r : r < M -> i < n ->
  cnt (seli i) (r * n) n = if (lvl r <=? wt i)%Z then 1 else 0.
Proof. intros Hr Hi.
  pose (F := fun c => (lvl r <=? wt c)%Z && (c =? i)).
  rewrite (cnt_ext (seli i) (fun t => F (t - r * n))).
  - rewrite (cnt_shift F). unfold F. rewrite cnt_pick.
    destruct (Nat.ltb_spec i n); [reflexivity|lia].
  - intros t Ht. unfold F, seli, sel, col, row.
    assert (Hc : t mod n = t - r * n).
    { symmetry. apply Nat.mod_unique with (q := r); lia. }
    assert (Hq : t / n = r).
    { symmetry. apply Nat.div_unique with (r := t - r * n); lia. }
    rewrite Hc, Hq, Nat.mod_small by lia. reflexivity.
Qed.

(* rows 0..K-1 *)
Lemma cnt_rows i K : K <= M -> i < n ->
  forall q, (0 <= q <= Z.of_nat M)%Z -> wt i = (g * q)%Z ->
  Z.of_nat (cnt (seli i) 0 (K * n)) = Z.max 0 (Z.of_nat K - (Z.of_nat M - q))%Z.
Proof. intros HK Hi q Hq Hw. induction K as [|K IH]; [cbn; lia|].
  replace (S K * n) with (K * n + n) by lia. rewrite cnt_app, Nat2Z.inj_add, IH by lia.
  cbn [plus]. rewrite cnt_row by lia. unfold lvl. rewrite Hw, m_eq.
  destruct (Z.leb_spec (g * Z.of_nat M - g * Z.of_nat K) (g * q)) as [H|H]; nia.
Qed.

Lemma cnt_period0 i : i < n -> Z.of_nat (cnt (seli i) 0 P) = (wt i / g)%Z.
Proof. intros Hi. destruct (ws_div i Hi) as (q & Hq & Hw). fold (wt i) in Hw.
  unfold P. rewrite Nat.mul_comm, (cnt_rows i M (le_n _) Hi q Hq Hw).
  rewrite Hw, Z.mul_comm, Z.div_mul by lia. lia. Qed.

Theorem cnt_window i s : i < n -> Z.of_nat (cnt (seli i) s P) = (wt i / g)%Z.
Proof. intros Hi. rewrite (cnt_periodic _ P s (seli_period i)). apply cnt_period0, Hi. Qed.

End Slots.
