(* Soundness of the lock discipline: if every pair of conflicting access classes shares a lock held
   exclusively by at least one of them, then in every well-formed trace every two conflicting accesses of
   different threads are ordered by happens-before (no data race), and an exclusive section cannot be
   interleaved by a conflicting access of another thread (no lost update). *)
From Coq Require Import List Arith Lia Bool.
Import ListNotations.
From Oxy Require Import Model.Lockset.

Lemma lock_eqb_eq a b : lock_eqb a b = true <-> a = b.
Proof. destruct a, b; unfold lock_eqb; cbn. rewrite andb_true_iff, !Nat.eqb_eq. split; [intros []; congruence|intros [= -> ->]; auto]. Qed.

Lemma in_remove1 x y h : In y (remove1 x h) -> In y h.
Proof. induction h as [|z h IH]; cbn; [auto|]. destruct x as [[t l] m], z as [[t' l'] m'].
  destruct ((t =? t') && lock_eqb l l' && Bool.eqb m m'); cbn; intuition. Qed.

Lemma remove1_spec x h : NoDup h -> forall y, In y (remove1 x h) <-> (In y h /\ y <> x).
Proof. induction h as [|z h IH]; intros ND y; cbn; [intuition|].
  destruct x as [[t l] m], z as [[t' l'] m'].
  inversion ND as [|? ? Hnin ND']; subst.
  destruct ((t =? t') && lock_eqb l l' && Bool.eqb m m') eqn:E.
  - apply andb_true_iff in E as [E Em]. apply andb_true_iff in E as [Et El].
    apply Nat.eqb_eq in Et. apply lock_eqb_eq in El. apply Bool.eqb_prop in Em. subst.
    split.
    + intros Hy. split; [auto|]. intros ->. contradiction.
    + intros [[<-|Hy] Hne]; [congruence|exact Hy].
  - cbn. rewrite (IH ND' y). split.
    + intros [<-|[Hy Hne]]; split; auto.
      intros [= -> -> ->]. rewrite Nat.eqb_refl in E.
      assert (lock_eqb l l = true) by (apply lock_eqb_eq; reflexivity).
      rewrite H, Bool.eqb_reflx in E. discriminate.
    + intros [[<-|Hy] Hne]; auto.
Qed.

Lemma nodup_remove1 x h : NoDup h -> NoDup (remove1 x h).
Proof. induction h as [|z h IH]; cbn; intros ND; [constructor|].
  destruct x as [[t l] m], z as [[t' l'] m']. inversion ND; subst.
  destruct ((t =? t') && lock_eqb l l' && Bool.eqb m m'); [assumption|].
  constructor; [|auto]. intros Hin. apply in_remove1 in Hin. contradiction. Qed.

(* invariant of well-formed traces: a lock is held by one writer or by readers only *)
Definition compat (h : holding) : Prop :=
  forall t1 m1 t2 m2 l, holds h t1 l m1 -> holds h t2 l m2 ->
    (t1, m1) = (t2, m2) \/ (t1 <> t2 /\ m1 = false /\ m2 = false).
Definition inv (h : holding) := NoDup h /\ compat h.

Lemma inv_step h e : inv h -> ok_event h e -> inv (step_h h e).
Proof. intros [ND C] Hok. destruct e as [t l m|t l m|t i s]; cbn in *; [| |split; assumption].
  - split.
    + constructor; [|assumption]. intros Hin. destruct (Hok t m Hin) as [Hne _]. congruence.
    + intros t1 m1 t2 m2 l0 [E1|H1] [E2|H2].
      * left. congruence.
      * inversion E1; subst. destruct (Hok _ _ H2) as (? & ? & ?). right. subst. auto.
      * inversion E2; subst. destruct (Hok _ _ H1) as (? & ? & ?). right. subst. auto.
      * eapply C; eassumption.
  - split; [apply nodup_remove1; assumption|].
    intros t1 m1 t2 m2 l0 H1 H2. apply in_remove1 in H1, H2. eapply C; eassumption.
Qed.

Lemma triple_dec (x y : tid * lock * bool) : {x = y} + {x <> y}.
Proof. repeat decide equality. Qed.

Lemma wf_from_app h a b : wf_from h (a ++ b) <-> wf_from h a /\ wf_from (fold_left step_h a h) b.
Proof. revert h; induction a as [|e a IH]; intros h; cbn; [tauto|]. rewrite IH. tauto. Qed.

Lemma inv_fold h a : inv h -> wf_from h a -> inv (fold_left step_h a h).
Proof. revert h; induction a as [|e a IH]; intros h Hi Hw; cbn; [assumption|].
  cbn in Hw. destruct Hw as [Hok Hw]. apply IH; [|exact Hw]. apply inv_step; [exact Hi|exact Hok]. Qed.

Lemma inv_nil : inv [].
Proof. split; [constructor|]. intros ? ? ? ? ? []. Qed.

Lemma acquired_between t l m : forall seg h,
  ~ holds h t l m -> holds (fold_left step_h seg h) t l m ->
  exists a, nth_error seg a = Some (Acq t l m).
Proof. induction seg as [|e seg IH]; intros h Hn Hh; cbn in *; [contradiction|].
  destruct e as [t' l' m'|t' l' m'|t' i s]; cbn in Hh.
  - destruct (triple_dec (t', l', m') (t, l, m)) as [E|NE].
    + inversion E; subst. exists 0. reflexivity.
    + destruct (IH ((t', l', m') :: h)) as [a Ha]; [|exact Hh|exists (S a); exact Ha].
      intros [E|Hin]; [contradiction|contradiction].
  - destruct (IH (remove1 (t', l', m') h)) as [a Ha]; [|exact Hh|exists (S a); exact Ha].
    intros Hin. apply in_remove1 in Hin. contradiction.
  - destruct (IH h Hn Hh) as [a Ha]. exists (S a). exact Ha.
Qed.

(* t1 holds l; later t2 holds l in a conflicting mode: t1 released, and t2 acquired after that *)
Lemma release_then_acquire t1 t2 l m1 m2 : t1 <> t2 -> conflict_m m1 m2 ->
  forall seg h, inv h -> wf_from h seg -> holds h t1 l m1 ->
  holds (fold_left step_h seg h) t2 l m2 ->
  exists r a, r < a /\ nth_error seg r = Some (Rel t1 l m1) /\ nth_error seg a = Some (Acq t2 l m2).
Proof. intros Hne Hc. induction seg as [|e seg IH]; intros h Hinv Hwf H1 H2; cbn in *.
  - exfalso. destruct Hinv as [_ C]. destruct (C _ _ _ _ _ H1 H2) as [E|(_ & -> & ->)].
    + inversion E; contradiction.
    + destruct Hc; discriminate.
  - destruct Hwf as [Hok Hwf].
    assert (Hn2 : ~ holds h t2 l m2).
    { intros H2'. destruct Hinv as [_ C]. destruct (C _ _ _ _ _ H1 H2') as [E|(_ & -> & ->)].
      - inversion E; contradiction.
      - destruct Hc; discriminate. }
    pose proof (inv_step h e Hinv Hok) as Hinv'.
    destruct e as [t l0 m|t l0 m|t i s]; cbn in *.
    + destruct (IH _ Hinv' Hwf (or_intror H1) H2) as (r & a & Hra & Hr & Ha).
      exists (S r), (S a). repeat split; [lia|exact Hr|exact Ha].
    + destruct (triple_dec (t, l0, m) (t1, l, m1)) as [E|NE].
      * inversion E; subst.
        destruct (acquired_between t2 l m2 seg (remove1 (t1, l, m1) h)) as [a Ha].
        { intros Hin. apply in_remove1 in Hin. contradiction. }
        { exact H2. }
        exists 0, (S a). repeat split; [lia|exact Ha].
      * assert (H1' : holds (remove1 (t, l0, m) h) t1 l m1).
        { apply remove1_spec; [apply Hinv|]. split; [exact H1|congruence]. }
        destruct (IH _ Hinv' Hwf H1' H2) as (r & a & Hra & Hr & Ha).
        exists (S r), (S a). repeat split; [lia|exact Hr|exact Ha].
    + destruct (IH _ Hinv' Hwf H1 H2) as (r & a & Hra & Hr & Ha).
      exists (S r), (S a). repeat split; [lia|exact Hr|exact Ha].
Qed.

Lemma respects_from_app prog h a b :
  respects_from prog h (a ++ b) <-> respects_from prog h a /\ respects_from prog (fold_left step_h a h) b.
Proof. revert h; induction a as [|e a IH]; intros h; cbn; [tauto|]. rewrite IH. tauto. Qed.

(* ---------- data-race freedom ---------- *)
Theorem lockset_sound prog :
  discipline prog ->
  forall tr, wf tr -> respects prog tr ->
  forall i j t1 t2 inst s1 s2,
    i < j -> nth_error tr i = Some (Acc t1 inst s1) -> nth_error tr j = Some (Acc t2 inst s2) ->
    t1 <> t2 -> conflicting_sites s1 s2 ->
    hb tr i j.
Proof.
  intros D tr Hwf Hres i j t1 t2 inst s1 s2 Hij Hi Hj Hne Hcs.
  destruct (nth_error_split tr i Hi) as (p1 & rest1 & -> & Hlen1).
  assert (Hj' : nth_error rest1 (j - i - 1) = Some (Acc t2 inst s2)).
  { rewrite nth_error_app2 in Hj by lia. rewrite Hlen1 in Hj.
    replace (j - i) with (S (j - i - 1)) in Hj by lia. exact Hj. }
  destruct (nth_error_split rest1 (j - i - 1) Hj') as (mid & rest2 & -> & Hlen2).
  unfold wf in Hwf. unfold respects in Hres.
  apply wf_from_app in Hwf as [Hwf1 Hwf]. cbn in Hwf. destruct Hwf as [_ Hwf].
  apply wf_from_app in Hwf as [Hwfm _].
  apply respects_from_app in Hres as [_ Hres]. cbn in Hres. destruct Hres as [[Hin1 Hr1] Hres].
  apply respects_from_app in Hres as [_ Hres]. cbn in Hres. destruct Hres as [[Hin2 Hr2] _].
  destruct (D s1 s2 Hin1 Hin2 Hcs) as (lp & m1 & m2 & Hl1 & Hl2 & Hc).
  set (h1 := fold_left step_h p1 []) in *.
  specialize (Hr1 _ _ Hl1). specialize (Hr2 _ _ Hl2).
  assert (Hinv1 : inv h1) by (apply inv_fold; [apply inv_nil|exact Hwf1]).
  destruct (release_then_acquire t1 t2 (inst, lp) m1 m2 Hne Hc mid h1 Hinv1 Hwfm Hr1 Hr2)
    as (r & a & Hra & Hr & Ha).
  assert (Ha_lt : a < length mid) by (apply nth_error_Some; rewrite Ha; discriminate).
  assert (Er : nth_error (p1 ++ Acc t1 inst s1 :: mid ++ Acc t2 inst s2 :: rest2) (i + 1 + r)
               = Some (Rel t1 (inst, lp) m1)).
  { rewrite nth_error_app2 by lia. replace (i + 1 + r - length p1) with (S r) by lia. cbn.
    rewrite nth_error_app1 by lia. exact Hr. }
  assert (Ea : nth_error (p1 ++ Acc t1 inst s1 :: mid ++ Acc t2 inst s2 :: rest2) (i + 1 + a)
               = Some (Acq t2 (inst, lp) m2)).
  { rewrite nth_error_app2 by lia. replace (i + 1 + a - length p1) with (S a) by lia. cbn.
    rewrite nth_error_app1 by lia. exact Ha. }
  eapply hb_trans; [|eapply hb_trans].
  - eapply hb_po with (j := i + 1 + r); [lia|exact Hi|exact Er|reflexivity].
  - eapply hb_sync with (j := i + 1 + a); [lia|exact Er|exact Ea|exact Hc].
  - eapply hb_po; [|exact Ea|exact Hj|reflexivity]. lia.
Qed.

(* ---------- no lost update: nothing conflicting fits between two accesses of one critical section ---------- *)
(* If t1 accesses a location at i and again at j without releasing lock l (held in mode m1) in between, then no
   other thread can access in between while holding l in a mode conflicting with m1. Together with the
   discipline (a conflicting class shares such a lock) a read-modify-write under an exclusive lock is atomic. *)
Lemma still_held t l m : forall seg h,
  holds h t l m -> (forall k, nth_error seg k <> Some (Rel t l m)) -> NoDup h -> wf_from h seg ->
  holds (fold_left step_h seg h) t l m.
Proof. induction seg as [|e seg IH]; intros h Hh Hno Hnd Hwf; cbn; [assumption|].
  destruct Hwf as [Hok Hwf].
  apply IH; [| |destruct e as [t' l' m'|t' l' m'|t' i s]; cbn; [constructor; [|assumption]|apply nodup_remove1; assumption|assumption]|exact Hwf].
  - destruct e as [t' l' m'|t' l' m'|t' i s]; cbn; [right; assumption| |assumption].
    apply remove1_spec; [assumption|]. split; [assumption|]. intros E. inversion E; subst. apply (Hno 0). reflexivity.
  - intros k. apply (Hno (S k)).
  - intros Hin. cbn in Hok. destruct (Hok _ _ Hin) as [Hne _]. congruence.
Qed.

Theorem critical_section_atomic prog :
  discipline prog ->
  forall tr, wf tr -> respects prog tr ->
  forall i k j t1 t2 inst s1 s2 s3,
    i < k < j ->
    nth_error tr i = Some (Acc t1 inst s1) -> nth_error tr j = Some (Acc t1 inst s3) ->
    nth_error tr k = Some (Acc t2 inst s2) -> t1 <> t2 ->
    conflicting_sites s1 s2 ->
    (* t1 keeps every lock of s1 between i and j: one critical section *)
    (forall lp m p, In (lp, m) (site_locks s1) -> i < p < j -> nth_error tr p <> Some (Rel t1 (inst, lp) m)) ->
    False.
Proof.
  intros D tr Hwf Hres i k j t1 t2 inst s1 s2 s3 Hikj Hi Hj Hk Hne Hcs Hkeep.
  destruct (nth_error_split tr i Hi) as (p1 & rest1 & -> & Hlen1).
  assert (Hk' : nth_error rest1 (k - i - 1) = Some (Acc t2 inst s2)).
  { rewrite nth_error_app2 in Hk by lia. rewrite Hlen1 in Hk.
    replace (k - i) with (S (k - i - 1)) in Hk by lia. exact Hk. }
  destruct (nth_error_split rest1 (k - i - 1) Hk') as (mid & rest2 & -> & Hlen2).
  unfold wf in Hwf. unfold respects in Hres.
  apply wf_from_app in Hwf as [Hwf1 Hwf]. cbn in Hwf. destruct Hwf as [_ Hwf].
  apply wf_from_app in Hwf as [Hwfm _].
  apply respects_from_app in Hres as [_ Hres]. cbn in Hres. destruct Hres as [[Hin1 Hr1] Hres].
  apply respects_from_app in Hres as [_ Hres]. cbn in Hres. destruct Hres as [[Hin2 Hr2] _].
  destruct (D s1 s2 Hin1 Hin2 Hcs) as (lp & m1 & m2 & Hl1 & Hl2 & Hc).
  set (h1 := fold_left step_h p1 []) in *.
  specialize (Hr1 _ _ Hl1). specialize (Hr2 _ _ Hl2).
  assert (Hinv1 : inv h1) by (apply inv_fold; [apply inv_nil|exact Hwf1]).
  (* t1 still holds the lock when t2 accesses *)
  assert (Hstill : holds (fold_left step_h mid h1) t1 (inst, lp) m1).
  { apply still_held; [exact Hr1| |apply Hinv1|exact Hwfm].
    intros q Hq. assert (q < length mid) by (apply nth_error_Some; rewrite Hq; discriminate).
    apply (Hkeep lp m1 (i + 1 + q) Hl1); [lia|].
    rewrite nth_error_app2 by lia. replace (i + 1 + q - length p1) with (S q) by lia. cbn.
    rewrite nth_error_app1 by lia. exact Hq. }
  assert (Hinvm : inv (fold_left step_h mid h1)) by (apply inv_fold; assumption).
  destruct Hinvm as [_ C]. destruct (C _ _ _ _ _ Hstill Hr2) as [E|(_ & -> & ->)].
  - inversion E. contradiction.
  - destruct Hc; discriminate.
Qed.

(* ---------- the boolean check decides the discipline ---------- *)
Lemma common_excl_spec l1 l2 : common_excl l1 l2 = true ->
  exists lp m1 m2, In (lp, m1) l1 /\ In (lp, m2) l2 /\ conflict_m m1 m2.
Proof. unfold common_excl. intros H. apply existsb_exists in H. destruct H as ([lp m1] & H1 & H).
  apply existsb_exists in H. destruct H as ([lp2 m2] & H2 & H). apply andb_true_iff in H. destruct H as [E Hm].
  apply Nat.eqb_eq in E. cbn in E. subst lp2. exists lp, m1, m2. repeat split; try assumption.
  unfold conflict_m. cbn in Hm. destruct m1; [left; reflexivity|right; exact Hm]. Qed.

Theorem discipline_b_sound prog : discipline_b prog = true -> discipline prog.
Proof. unfold discipline_b, discipline. intros H s1 s2 H1 H2 [Hloc Hw].
  rewrite forallb_forall in H. specialize (H s1 H1). rewrite forallb_forall in H. specialize (H s2 H2).
  unfold pair_ok in H. rewrite Hloc, Nat.eqb_refl in H.
  assert (site_write s1 || site_write s2 = true) by (destruct Hw as [-> | ->]; [reflexivity|apply orb_true_r]).
  rewrite H0 in H. cbn in H. apply common_excl_spec. exact H. Qed.

(* ---- lock order: a ranking that every nesting edge respects rules out every cycle of nested acquisitions, hence every
   circular wait between goroutines that each hold one lock of the cycle and ask for the next ---- *)
Lemma nested_rank rank edges : order_ok rank edges = true ->
  forall a b, nested edges a b -> index_of a rank < index_of b rank.
Proof.
  intros H a b P. induction P as [a b Hin|a b c _ IH1 _ IH2].
  - unfold order_ok in H. rewrite forallb_forall in H. specialize (H (a, b) Hin). cbn in H.
    apply Nat.ltb_lt in H. exact H.
  - lia.
Qed.

Theorem lock_order_acyclic rank edges : order_ok rank edges = true -> forall a, ~ nested edges a a.
Proof. intros H a P. pose proof (nested_rank rank edges H a a P). lia. Qed.
