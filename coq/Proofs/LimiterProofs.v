(* The rate limiter (TTL map + bucket sets) refines an ideal limiter that never forgets a source,
   provided the sources fit the capacity and every burst refills while an idle source is remembered.
   The admission bound is then proved on the ideal limiter, per source, per rate, per window. *)
From Oxy Require Import Base.Prelude Model.Bucket Model.Limiter Proofs.BucketProofs Proofs.SetProofs.
Open Scope Z_scope.

(* ---------- association-list facts for the TTL map ---------- *)
Definition keys (m : ttlmap) : list Z := map e_key m.

Lemma lookup_none m k : lookup m k = None <-> ~ In k (keys m).
Proof. induction m as [|e m IH]; cbn; [tauto|]. destruct (Z.eqb_spec (e_key e) k); [split; [discriminate|tauto]|].
  rewrite IH. tauto. Qed.

Lemma lookup_some_key m k e : lookup m k = Some e -> e_key e = k /\ In e m.
Proof. induction m as [|x m IH]; cbn; [discriminate|]. destruct (Z.eqb_spec (e_key x) k); intros H.
  - inv H. auto.
  - destruct (IH H). auto. Qed.

Lemma lookup_app_new m k e : lookup m k = None -> e_key e = k -> lookup (m ++ [e]) k = Some e.
Proof. induction m as [|x m IH]; cbn; intros H E.
  - rewrite E, Z.eqb_refl. reflexivity.
  - destruct (Z.eqb_spec (e_key x) k); [discriminate|]. auto. Qed.

Lemma lookup_app_other m k e : e_key e <> k -> lookup (m ++ [e]) k = lookup m k.
Proof. induction m as [|x m IH]; cbn; intros E.
  - destruct (Z.eqb_spec (e_key e) k); congruence.
  - destruct (Z.eqb_spec (e_key x) k); auto. Qed.

Lemma keys_remove_incl m k x : In x (keys (remove m k)) -> In x (keys m).
Proof. induction m as [|e m IH]; cbn; [tauto|]. destruct (Z.eqb_spec (e_key e) k); cbn; intuition. Qed.

Lemma NoDup_remove m k : NoDup (keys m) -> NoDup (keys (remove m k)).
Proof. induction m as [|e m IH]; cbn; intros H; [constructor|]. inv H. destruct (Z.eqb_spec (e_key e) k); [assumption|].
  cbn. constructor; auto. intros Hin. apply keys_remove_incl in Hin. tauto. Qed.

Lemma lookup_remove_same m k : NoDup (keys m) -> lookup (remove m k) k = None.
Proof. induction m as [|e m IH]; cbn; intros H; [reflexivity|]. inv H. destruct (Z.eqb_spec (e_key e) k).
  - apply lookup_none. subst k. assumption.
  - cbn. destruct (Z.eqb_spec (e_key e) k); [congruence|]. auto. Qed.

Lemma lookup_remove_other m k k' : k <> k' -> lookup (remove m k) k' = lookup m k'.
Proof. induction m as [|e m IH]; cbn; intros H; [reflexivity|]. destruct (Z.eqb_spec (e_key e) k).
  - destruct (Z.eqb_spec (e_key e) k'); [congruence|reflexivity].
  - cbn. destruct (Z.eqb_spec (e_key e) k'); auto. Qed.

Lemma keys_replace m e : keys (replace m e) = keys m \/ True.
Proof. auto. Qed.

Lemma keys_replace_eq m e : In (e_key e) (keys m) -> keys (replace m e) = keys m.
Proof. induction m as [|x m IH]; cbn; [tauto|]. destruct (Z.eqb_spec (e_key x) (e_key e)); cbn; [congruence|].
  intros [H|H]; [congruence|]. f_equal. auto. Qed.

Lemma lookup_replace_same m e : In (e_key e) (keys m) -> lookup (replace m e) (e_key e) = Some e.
Proof. induction m as [|x m IH]; cbn; [tauto|]. destruct (Z.eqb_spec (e_key x) (e_key e)); cbn.
  - rewrite Z.eqb_refl. reflexivity.
  - destruct (Z.eqb_spec (e_key x) (e_key e)); [congruence|]. intros [H|H]; [congruence|auto]. Qed.

Lemma lookup_replace_other m e k : e_key e <> k -> lookup (replace m e) k = lookup m k.
Proof. induction m as [|x m IH]; cbn; intros H; [reflexivity|]. destruct (Z.eqb_spec (e_key x) (e_key e)); cbn.
  - destruct (Z.eqb_spec (e_key e) k); [congruence|]. destruct (Z.eqb_spec (e_key x) k); [congruence|reflexivity].
  - destruct (Z.eqb_spec (e_key x) k); auto. Qed.

Lemma NoDup_app_snoc (l : list Z) x : NoDup l -> ~ In x l -> NoDup (l ++ [x]).
Proof. induction l as [|a l IH]; cbn; intros Hnd Hx; [constructor; [tauto|constructor]|].
  inv Hnd. constructor; [|apply IH; tauto]. intros Hin. apply in_app_or in Hin. destruct Hin as [Hin|[<-|[]]]; tauto. Qed.

(* ---------- time arithmetic of the expiry ---------- *)
Lemma second_pos : 0 < second. Proof. unfold second; lia. Qed.

(* an entry armed at time tl with ttl = 10*q + 1 seconds is found expired only more than 10*q seconds later *)
Lemma expired_is_late tl t' q : tl / second + (q * 10 + 1) <= t' / second -> q * 10 * second <= t' - tl.
Proof. intros H. pose proof second_pos.
  pose proof (Z.mul_div_le t' second ltac:(lia)). pose proof (Z.mod_pos_bound tl second ltac:(lia)).
  pose proof (Z.div_mod tl second ltac:(lia)). nia. Qed.

(* ---------- events ---------- *)
Record event := { ev_t : Z; ev_src : Z; ev_n : Z; ev_out : set_outcome }.

Fixpoint events (c : cfg) (s : st) (ops : list op) : list event :=
  match ops with
  | [] => []
  | Req src n hint :: r =>
      {| ev_t := now s; ev_src := src; ev_n := n; ev_out := snd (fst (consume_rates c s src n hint)) |}
      :: events c (fst (step c s (Req src n hint))) r
  | o :: r => events c (fst (step c s o)) r
  end.

Lemma step_req_state c s src n hint : fst (step c s (Req src n hint)) = fst (fst (consume_rates c s src n hint)).
Proof. cbn [step]. destruct (consume_rates c s src n hint) as [[s' o] ev]. destruct o; reflexivity. Qed.

(* ---------- the ideal limiter: one bucket set per source, never forgotten ---------- *)
Record ist := { inow : Z; imap : Z -> option bset; idelay : Z }.

Definition ireq (c : cfg) (s : ist) (src n : Z) : ist * set_outcome :=
  let bs := match imap s src with Some bs => update_set (rates c) bs | None => new_set (inow s) (rates c) end in
  let o := fst (consume_set (inow s) n bs) in
  let bs' := snd (consume_set (inow s) n bs) in
  ({| inow := inow s; imap := fun k => if k =? src then Some bs' else imap s k;
      idelay := match o with SReject d => d | _ => 0 end |}, o).

Definition istep (c : cfg) (s : ist) (o : op) : ist :=
  match o with
  | Req src n _ => fst (ireq c s src n)
  | Tick d => {| inow := inow s + Z.max 0 d; imap := imap s; idelay := idelay s |}
  | WaitAdvertised => {| inow := inow s + Z.max 0 (idelay s); imap := imap s; idelay := idelay s |}
  end.

Fixpoint ievents (c : cfg) (s : ist) (ops : list op) : list event :=
  match ops with
  | [] => []
  | Req src n hint :: r =>
      {| ev_t := inow s; ev_src := src; ev_n := n; ev_out := snd (ireq c s src n) |} :: ievents c (istep c s (Req src n hint)) r
  | o :: r => ievents c (istep c s o) r
  end.

Definition iinit (start : Z) : ist := {| inow := start; imap := fun _ => None; idelay := 0 |}.
Definition init (start : Z) : st := {| now := start; tmap := []; last_delay := 0 |}.

(* ---------- hypotheses of the guarantee ---------- *)
Definition rates_max_period (rs : list rate) : Z := fold_right (fun r m => Z.max (r_period r) m) 0 rs.

(* every burst refills within the time an idle source is remembered *)
Definition refill_ok (rs : list rate) : Prop :=
  forall r, In r rs -> r_burst r * time_per_token (r_period r) (r_average r) <= (rates_max_period rs / second) * Consts.ttlPerSecondOfPeriod * second.

Fixpoint srcs (ops : list op) : list Z :=
  match ops with [] => [] | Req s _ _ :: r => s :: srcs r | _ :: r => srcs r end.
Fixpoint amounts_ok (ops : list op) : Prop :=
  match ops with [] => True | Req _ n _ :: r => 0 <= n /\ amounts_ok r | _ :: r => amounts_ok r end.

(* the sources of the history fit the capacity: they all belong to a duplicate-free universe U of at most `capacity` sources *)
Definition fits (c : cfg) (U : list Z) (ops : list op) : Prop :=
  NoDup U /\ Z.of_nat (length U) <= capacity c /\ forall s, In s (srcs ops) -> In s U.

Lemma max_period_conforms rs s t : sinv rs s t -> max_period s = rates_max_period rs.
Proof. unfold sinv, max_period, rates_max_period. induction 1 as [|r b rs bs [(Hp & _) _] _ IH]; cbn; [reflexivity|]. rewrite Hp. f_equal. exact IH. Qed.

(* ---------- simulation relation ---------- *)
Definition will_be_stale (e : entry) : Prop :=
  forall t', e_exp e <= now_sec t' -> forall b, In b (e_val e) -> burst b * tpt b <= t' - last b.

Definition Rel (c : cfg) (U : list Z) (s : st) (I : ist) : Prop :=
  NoDup (keys (tmap s)) /\ (forall k, In k (keys (tmap s)) -> In k U) /\
  inow I = now s /\ idelay I = last_delay s /\
  forall k, match lookup (tmap s) k with
            | Some e => imap I k = Some (e_val e) /\ will_be_stale e /\ sinv (rates c) (e_val e) (now s)
            | None => imap I k = None
            end.

Lemma Rel_init c U start : Rel c U (init start) (iinit start).
Proof. unfold Rel, init, iinit; cbn. repeat split; try constructor; try tauto. Qed.

Lemma armed_entry_stale c k bs tnow :
  valid_rates (rates c) -> refill_ok (rates c) -> sinv (rates c) bs tnow ->
  will_be_stale {| e_key := k; e_exp := now_sec tnow + ttl_of bs; e_val := bs |}.
Proof. intros Hv Hr Hs t' Hexp b Hb. cbn [e_exp e_val] in *. unfold ttl_of, now_sec, Consts.ttlPerSecondOfPeriod, Consts.ttlExtraSeconds in Hexp.
  rewrite (max_period_conforms _ _ _ Hs) in Hexp.
  pose proof (expired_is_late tnow t' _ Hexp) as Hlate.
  assert (exists r, In r (rates c) /\ conforms r b /\ binv b tnow) as (r & Hin & (Hp & Ht & Hbu) & Hbi).
  { clear - Hs Hb. induction Hs as [|r x rs bs Hx _ IH]; [destruct Hb|]. destruct Hb as [->|Hb].
    - exists r. split; [left; reflexivity|exact Hx].
    - destruct (IH Hb) as (r0 & A & B). exists r0. split; [right; assumption|assumption]. }
  specialize (Hr r Hin). unfold Consts.ttlPerSecondOfPeriod in Hr. rewrite Hbu, Ht. destruct Hbi as (_ & _ & _ & _ & _ & Hl). lia. Qed.

Lemma consume_eq_settled now n b b' : settled now b = settled now b' -> consume now n b = consume now n b'.
Proof. unfold consume, settled. intros ->. reflexivity. Qed.

Lemma consume_set_eq now n s s' :
  Forall2 (fun b b' => settled now b = settled now b') s s' -> consume_set now n s = consume_set now n s'.
Proof. intros H. unfold consume_set. rewrite !consume_all_map.
  assert (E1 : map (fun b => fst (consume now n b)) s = map (fun b => fst (consume now n b)) s').
  { induction H as [|b b' s s' Hb _ IH]; cbn; [reflexivity|]. rewrite (consume_eq_settled _ n _ _ Hb), IH. reflexivity. }
  assert (E2 : map (fun b => snd (consume now n b)) s = map (fun b => snd (consume now n b)) s').
  { clear E1. induction H as [|b b' s s' Hb _ IH]; cbn; [reflexivity|]. rewrite (consume_eq_settled _ n _ _ Hb), IH. reflexivity. }
  rewrite E1, E2. reflexivity. Qed.

Lemma stale_set_as_new rs s t tnow :
  Forall valid_rate rs -> sinv rs s t -> t <= tnow -> (forall b, In b s -> burst b * tpt b <= tnow - last b) ->
  Forall2 (fun b b' => settled tnow b = settled tnow b') s (new_set tnow rs).
Proof. intros Hv Hs Ht Hst. unfold sinv, new_set in *. induction Hs as [|r b rs bs [Hc Hb] _ IH]; cbn; constructor.
  - inv Hv. eapply stale_as_new; eauto. apply Hst. left; reflexivity.
  - inv Hv. apply IH; auto. intros; apply Hst; right; assumption. Qed.

(* one request: same decision, relation preserved, nobody evicted *)
Lemma sim_req c U s I src n hint :
  valid_rates (rates c) -> refill_ok (rates c) -> NoDup U -> Z.of_nat (length U) <= capacity c ->
  Rel c U s I -> In src U -> 0 <= n ->
  snd (fst (consume_rates c s src n hint)) = snd (ireq c I src n) /\
  Rel c U (fst (fst (consume_rates c s src n hint))) (fst (ireq c I src n)) /\
  snd (consume_rates c s src n hint) = -1.
Proof. intros Hv Hr HU Hcap (Hnd & Hsub & Hnow & Hdel & Hmap) Hsrc Hn.
  destruct Hv as (Hvr & Hper & Hne).
  unfold consume_rates, ireq, ttl_get. rewrite Hnow.
  pose proof (Hmap src) as Hs. destruct (lookup (tmap s) src) as [e|] eqn:El.
  - destruct Hs as (HI & Hst & Hinv). destruct (lookup_some_key _ _ _ El) as (Hk & Hin).
    assert (Hink : In src (keys (tmap s))) by (rewrite <- Hk; apply in_map; assumption).
    destruct (Z.leb_spec (e_exp e) (now_sec (now s))) as [Hexp|Hlive].
    + (* expired: concrete starts afresh, the ideal set is stale *)
      rewrite HI. rewrite (update_set_id _ _ _ Hper Hinv).
      assert (Heq : consume_set (now s) n (e_val e) = consume_set (now s) n (new_set (now s) (rates c))).
      { apply consume_set_eq. eapply stale_set_as_new; [assumption|eassumption|lia|]. intros b Hb. apply (Hst (now s) Hexp b Hb). }
      rewrite Heq.
      pose proof (new_set_spec (now s) (rates c) Hvr) as Hnew.
      destruct (consume_set_spec (rates c) (now s) n _ (now s) Hnew (Z.le_refl _) Hn) as (_ & _ & Hinv').
      destruct (consume_set (now s) n (new_set (now s) (rates c))) as [o bs'] eqn:Ec. cbn [fst snd] in *.
      unfold ttl_set. rewrite (lookup_remove_same _ _ Hnd).
      assert (Hlen : (Z.of_nat (length (remove (tmap s) src)) < capacity c)).
      { assert (NoDup (src :: keys (remove (tmap s) src))).
        { constructor; [apply lookup_none, lookup_remove_same; assumption|apply NoDup_remove; assumption]. }
        assert (incl (src :: keys (remove (tmap s) src)) U).
        { intros x [<-|Hx]; [assumption|]. apply Hsub. eapply keys_remove_incl; eassumption. }
        pose proof (NoDup_incl_length H H0) as L. cbn in L. unfold keys in L. rewrite map_length in L. lia. }
      destruct (Z.leb_spec (capacity c) (Z.of_nat (length (remove (tmap s) src)))); [lia|].
      cbn [fst snd]. split; [reflexivity|]. split; [|reflexivity].
      set (e' := {| e_key := src; e_exp := now_sec (now s) + ttl_of (new_set (now s) (rates c)); e_val := bs' |}).
      unfold Rel; cbn [now tmap last_delay inow imap idelay].
      split. { unfold keys. rewrite map_app. cbn. apply NoDup_app_snoc; [apply NoDup_remove; assumption|].
               apply lookup_none, lookup_remove_same; assumption. }
      split. { intros k Hk'. unfold keys in Hk'. rewrite map_app in Hk'. apply in_app_or in Hk'. destruct Hk' as [Hk'|[<-|[]]]; [|assumption].
               apply Hsub. eapply keys_remove_incl; eassumption. }
      split; [reflexivity|]. split; [reflexivity|].
      intros k. destruct (Z.eqb_spec k src) as [->|Hne'].
      * rewrite (lookup_app_new _ src e'); [|apply lookup_remove_same; assumption|reflexivity].
        cbn [e_val]. split; [reflexivity|]. split; [|assumption].
        (* armed with the ttl of the fresh set; same max period as bs' *)
        assert (Et : ttl_of (new_set (now s) (rates c)) = ttl_of bs').
        { unfold ttl_of. rewrite (max_period_conforms _ _ _ Hnew), (max_period_conforms _ _ _ Hinv'). reflexivity. }
        unfold e'. rewrite Et. apply (armed_entry_stale c); [split; [assumption|split; assumption]|assumption|assumption].
      * rewrite lookup_app_other by (cbn; congruence). rewrite lookup_remove_other by congruence.
        specialize (Hmap k). destruct (lookup (tmap s) k); assumption.
    + (* live entry: both update and consume the same set *)
      rewrite HI.
      rewrite (update_set_id _ _ _ Hper Hinv).
      destruct (consume_set_spec (rates c) (now s) n _ (now s) Hinv (Z.le_refl _) Hn) as (_ & _ & Hinv').
      destruct (consume_set (now s) n (e_val e)) as [o bs'] eqn:Ec. cbn [fst snd] in *.
      unfold ttl_set. rewrite El. cbn [fst snd]. split; [reflexivity|]. split; [|reflexivity].
      set (e' := {| e_key := src; e_exp := now_sec (now s) + ttl_of (e_val e); e_val := bs' |}).
      assert (Hke : In (e_key e') (keys (tmap s))) by (cbn; assumption).
      unfold Rel; cbn [now tmap last_delay inow imap idelay].
      split; [rewrite (keys_replace_eq _ e' Hke); assumption|].
      split; [rewrite (keys_replace_eq _ e' Hke); assumption|].
      split; [reflexivity|]. split; [reflexivity|].
      intros k. destruct (Z.eqb_spec k src) as [->|Hne'].
      * change src with (e_key e') at 1. rewrite (lookup_replace_same _ e' Hke). cbn [e_val].
        split; [reflexivity|]. split; [|assumption].
        assert (Et : ttl_of (e_val e) = ttl_of bs').
        { unfold ttl_of. rewrite (max_period_conforms _ _ _ Hinv), (max_period_conforms _ _ _ Hinv'). reflexivity. }
        unfold e'. rewrite Et. apply (armed_entry_stale c); [split; [assumption|split; assumption]|assumption|assumption].
      * rewrite lookup_replace_other by (cbn; congruence).
        specialize (Hmap k). destruct (lookup (tmap s) k); assumption.
  - (* never seen (or forgotten): both create a fresh set *)
    rewrite Hs.
    pose proof (new_set_spec (now s) (rates c) Hvr) as Hnew.
    destruct (consume_set_spec (rates c) (now s) n _ (now s) Hnew (Z.le_refl _) Hn) as (_ & _ & Hinv').
    destruct (consume_set (now s) n (new_set (now s) (rates c))) as [o bs'] eqn:Ec. cbn [fst snd] in *.
    unfold ttl_set. rewrite El.
    assert (Hlen : (Z.of_nat (length (tmap s)) < capacity c)).
    { assert (NoDup (src :: keys (tmap s))) by (constructor; [apply lookup_none; assumption|assumption]).
      assert (incl (src :: keys (tmap s)) U) by (intros x [<-|Hx]; auto).
      pose proof (NoDup_incl_length H H0) as L. cbn in L. unfold keys in L. rewrite map_length in L. lia. }
    destruct (Z.leb_spec (capacity c) (Z.of_nat (length (tmap s)))); [lia|].
    cbn [fst snd]. split; [reflexivity|]. split; [|reflexivity].
    set (e' := {| e_key := src; e_exp := now_sec (now s) + ttl_of (new_set (now s) (rates c)); e_val := bs' |}).
    unfold Rel; cbn [now tmap last_delay inow imap idelay].
    split. { unfold keys. rewrite map_app. cbn. apply NoDup_app_snoc; [assumption|apply lookup_none; assumption]. }
    split. { intros k Hk'. unfold keys in Hk'. rewrite map_app in Hk'. apply in_app_or in Hk'. destruct Hk' as [Hk'|[<-|[]]]; auto. }
    split; [reflexivity|]. split; [reflexivity|].
    intros k. destruct (Z.eqb_spec k src) as [->|Hne'].
    + rewrite (lookup_app_new _ src e'); [|assumption|reflexivity].
      cbn [e_val]. split; [reflexivity|]. split; [|assumption].
      assert (Et : ttl_of (new_set (now s) (rates c)) = ttl_of bs').
      { unfold ttl_of. rewrite (max_period_conforms _ _ _ Hnew), (max_period_conforms _ _ _ Hinv'). reflexivity. }
      unfold e'. rewrite Et. apply (armed_entry_stale c); [split; [assumption|split; assumption]|assumption|assumption].
    + rewrite lookup_app_other by (cbn; congruence).
      specialize (Hmap k). destruct (lookup (tmap s) k); assumption.
Qed.

(* ---------- refinement over whole histories ---------- *)
Lemma Rel_tick c U s I d :
  Rel c U s I ->
  Rel c U {| now := now s + Z.max 0 d; tmap := tmap s; last_delay := last_delay s |}
          {| inow := inow I + Z.max 0 d; imap := imap I; idelay := idelay I |}.
Proof. intros (Hnd & Hsub & Hnow & Hdel & Hmap). unfold Rel; cbn [now tmap last_delay inow imap idelay].
  repeat split; try assumption; try lia. intros k. specialize (Hmap k). destruct (lookup (tmap s) k); [|assumption].
  destruct Hmap as (A & B & C). repeat split; try assumption. eapply sinv_mono; [eassumption|lia]. Qed.

Theorem refines c U : valid_rates (rates c) -> refill_ok (rates c) ->
  forall ops s I, Rel c U s I -> fits c U ops -> amounts_ok ops ->
  events c s ops = ievents c I ops.
Proof. intros Hv Hr. induction ops as [|o ops IH]; intros s I HR (HU & Hcap & Hsrc) Ham; [reflexivity|].
  destruct o as [src n hint|d|].
  - cbn [events ievents]. destruct Ham as (Hn & Ham).
    destruct (sim_req c U s I src n hint Hv Hr HU Hcap HR (Hsrc src (or_introl eq_refl)) Hn) as (Eo & HR' & _).
    assert (Hnow : now s = inow I) by (destruct HR as (_ & _ & E & _); auto).
    rewrite Eo, Hnow. f_equal. rewrite step_req_state. apply IH; [exact HR'| |exact Ham].
    repeat split; try assumption. intros x Hx. apply Hsrc. right; assumption.
  - cbn [events ievents step istep fst]. apply IH; [apply Rel_tick; assumption| |exact Ham].
    repeat split; assumption.
  - cbn [events ievents step istep fst]. pose proof (Rel_tick c U s I (last_delay s) HR) as HR2.
    assert (D : idelay I = last_delay s) by (destruct HR as (_ & _ & _ & D & _); exact D).
    rewrite D in *. apply IH; [exact HR2| |exact Ham]. repeat split; assumption. Qed.

(* nobody is forgotten while the sources fit the capacity *)
Theorem no_eviction c U : valid_rates (rates c) -> refill_ok (rates c) ->
  forall ops s I, Rel c U s I -> fits c U ops -> amounts_ok ops ->
  forall pre src n hint post, ops = pre ++ Req src n hint :: post ->
  snd (consume_rates c (exec (step c) s pre) src n hint) = -1.
Proof. intros Hv Hr ops s I HR Hf Ham pre. revert ops s I HR Hf Ham.
  induction pre as [|o pre IH]; intros ops s I HR (HU & Hcap & Hsrc) Ham src n hint post ->.
  - cbn [exec]. destruct Ham as (Hn & _).
    apply (sim_req c U s I src n hint Hv Hr HU Hcap HR (Hsrc src (or_introl eq_refl)) Hn).
  - cbn [exec]. change ((o :: pre) ++ Req src n hint :: post) with (o :: (pre ++ Req src n hint :: post)) in *.
    destruct o as [src0 n0 hint0|d|]; cbn [amounts_ok srcs] in Ham, Hsrc.
    + destruct Ham as (Hn0 & Ham).
      destruct (sim_req c U s I src0 n0 hint0 Hv Hr HU Hcap HR (Hsrc src0 (or_introl eq_refl)) Hn0) as (_ & HR' & _).
      rewrite step_req_state. eapply (IH (pre ++ Req src n hint :: post)); [exact HR'| |exact Ham|reflexivity].
      repeat split; try assumption. intros x Hx. apply Hsrc. right; assumption.
    + cbn [step fst]. eapply (IH (pre ++ Req src n hint :: post)); [apply Rel_tick; eassumption| |exact Ham|reflexivity]. repeat split; assumption.
    + cbn [step fst]. eapply (IH (pre ++ Req src n hint :: post)); [apply (Rel_tick c U s I (last_delay s)); eassumption| |exact Ham|reflexivity]. repeat split; assumption. Qed.

(* ---------- the ideal limiter, seen from one source and one rate ---------- *)
Definition to_bev (e : event) : bev := (ev_t e, ev_n e, is_admit (ev_out e)).
Definition of_src (src : Z) (e : event) : bool := ev_src e =? src.
Definition Iinv (c : cfg) (I : ist) : Prop := forall k bs, imap I k = Some bs -> sinv (rates c) bs (inow I).

Fixpoint iexec (c : cfg) (I : ist) (ops : list op) : ist :=
  match ops with [] => I | o :: r => iexec c (istep c I o) r end.

Lemma sorted_from_le t t' evs : t <= t' -> sorted_from t' evs -> sorted_from t evs.
Proof. destruct evs as [|[[t1 n1] c1] evs]; cbn; [tauto|]. intuition lia. Qed.

Lemma Forall2_nth_error {A B} (R : A -> B -> Prop) l1 l2 i a :
  Forall2 R l1 l2 -> nth_error l1 i = Some a -> exists b, nth_error l2 i = Some b /\ R a b.
Proof. intros H. revert i. induction H as [|x y l1 l2 Hxy _ IH]; intros [|i]; cbn; intros E; try discriminate.
  - inv E. eauto.
  - apply IH. assumption. Qed.

Lemma Iinv_req c I src n : Forall valid_rate (rates c) -> NoDup (map r_period (rates c)) -> Iinv c I -> 0 <= n ->
  Iinv c (fst (ireq c I src n)).
Proof. intros Hv Hp Hi Hn k bs. unfold ireq; cbn [fst imap inow]. destruct (Z.eqb_spec k src) as [->|Hne]; [|apply Hi].
  intros E. inv E. destruct (imap I src) as [s0|] eqn:Es.
  - rewrite (update_set_id _ _ _ Hp (Hi _ _ Es)). apply (consume_set_spec (rates c) (inow I) n s0 (inow I) (Hi _ _ Es) (Z.le_refl _) Hn).
  - apply (consume_set_spec (rates c) (inow I) n _ (inow I) (new_set_spec _ _ Hv) (Z.le_refl _) Hn). Qed.

Lemma Iinv_tick c I d : Iinv c I -> Iinv c {| inow := inow I + Z.max 0 d; imap := imap I; idelay := idelay I |}.
Proof. intros Hi k bs E. cbn in *. eapply sinv_mono; [apply (Hi _ _ E)|lia]. Qed.

Lemma Iinv_step c I o : Forall valid_rate (rates c) -> NoDup (map r_period (rates c)) -> Iinv c I ->
  (forall s n h, o = Req s n h -> 0 <= n) -> Iinv c (istep c I o).
Proof. intros Hv Hp Hi Hn. destruct o as [s n h|d|]; cbn [istep].
  - apply Iinv_req; auto. eapply Hn; reflexivity.
  - apply Iinv_tick; assumption.
  - apply Iinv_tick; assumption. Qed.

Lemma Iinv_exec c ops : Forall valid_rate (rates c) -> NoDup (map r_period (rates c)) ->
  forall I, Iinv c I -> amounts_ok ops -> Iinv c (iexec c I ops).
Proof. intros Hv Hp. induction ops as [|o ops IH]; intros I Hi Ham; cbn [iexec]; [assumption|].
  apply IH.
  - apply Iinv_step; auto. intros s n h ->. apply Ham.
  - destruct o; cbn in Ham; tauto. Qed.

Lemma filter_src_cons src e l :
  filter (of_src src) (e :: l) = if ev_src e =? src then e :: filter (of_src src) l else filter (of_src src) l.
Proof. reflexivity. Qed.

(* source src already has a set: bucket i evolves by bstep with the set's decisions as commit flags *)
Lemma known_source c src : Forall valid_rate (rates c) -> NoDup (map r_period (rates c)) ->
  forall ops I s0 i b0, Iinv c I -> amounts_ok ops -> imap I src = Some s0 -> nth_error s0 i = Some b0 ->
  let evs := map to_bev (filter (of_src src) (ievents c I ops)) in
  bvalid evs b0 /\ sorted_from (inow I) evs.
Proof. intros Hv Hp. induction ops as [|o ops IH]; intros I s0 i b0 Hi Ham Es Eb; cbn zeta; [cbn; tauto|].
  destruct o as [s n h|d|]; cbn [ievents].
  - destruct Ham as (Hn & Ham). rewrite filter_src_cons. cbn [ev_src].
    pose proof (Iinv_req c I s n Hv Hp Hi Hn) as Hi'.
    destruct (Z.eqb_spec s src) as [->|Hne].
    + cbn [map to_bev ev_t ev_n ev_out bvalid sorted_from].
      unfold ireq at 1 2. cbn [snd]. rewrite Es. rewrite (update_set_id _ _ _ Hp (Hi _ _ Es)).
      destruct (consume_set_spec (rates c) (inow I) n s0 (inow I) (Hi _ _ Es) (Z.le_refl _) Hn) as (E' & Hadm & _).
      assert (Hin : In b0 s0) by (eapply nth_error_In; eassumption).
      specialize (IH (istep c I (Req src n h)) (snd (consume_set (inow I) n s0)) i
                    (bstep (inow I) n (is_admit (fst (consume_set (inow I) n s0))) b0) Hi' Ham).
      destruct IH as (IH1 & IH2).
      { cbn [istep]. unfold ireq; cbn [fst imap]. rewrite Z.eqb_refl, Es, (update_set_id _ _ _ Hp (Hi _ _ Es)). reflexivity. }
      { rewrite E'. rewrite nth_error_map, Eb. reflexivity. }
      split; [split|].
      * intros Hc. apply Hadm; assumption.
      * exact IH1.
      * split; [lia|]. split; [assumption|]. exact IH2.
    + apply (IH (istep c I (Req s n h)) s0 i b0 Hi' Ham); [|assumption].
      cbn [istep]. unfold ireq; cbn [fst imap]. destruct (Z.eqb_spec src s); [congruence|assumption].
  - cbn in Ham. destruct (IH (istep c I (Tick d)) s0 i b0 (Iinv_tick c I d Hi) Ham Es Eb) as (A & B).
    split; [exact A|]. eapply sorted_from_le; [|exact B]. cbn. lia.
  - cbn in Ham. destruct (IH (istep c I WaitAdvertised) s0 i b0 (Iinv_tick c I (idelay I) Hi) Ham Es Eb) as (A & B).
    split; [exact A|]. eapply sorted_from_le; [|exact B]. cbn. lia. Qed.

(* in every reachable state, the future events of a source are a valid history of bucket i from some well-formed state *)
Lemma source_history c src i r : Forall valid_rate (rates c) -> NoDup (map r_period (rates c)) ->
  nth_error (rates c) i = Some r ->
  forall ops I, Iinv c I -> amounts_ok ops ->
  let evs := map to_bev (filter (of_src src) (ievents c I ops)) in
  evs = [] \/ exists b0 t0, binv b0 t0 /\ conforms r b0 /\ sorted_from t0 evs /\ bvalid evs b0.
Proof. intros Hv Hp Hr. induction ops as [|o ops IH]; intros I Hi Ham; cbn zeta; [left; reflexivity|].
  destruct (imap I src) as [s0|] eqn:Es.
  - right. destruct (Forall2_nth_error _ _ _ _ _ (Hi _ _ Es) Hr) as (b0 & Eb & Hc & Hb).
    destruct (known_source c src Hv Hp (o :: ops) I s0 i b0 Hi Ham Es Eb) as (A & B).
    exists b0, (inow I). auto.
  - destruct o as [s n h|d|]; cbn [ievents].
    + destruct Ham as (Hn & Ham). rewrite filter_src_cons. cbn [ev_src].
      pose proof (Iinv_req c I s n Hv Hp Hi Hn) as Hi'.
      destruct (Z.eqb_spec s src) as [->|Hne]; [|apply IH; assumption].
      right. exists (new_bucket (inow I) r), (inow I).
      assert (Hvr : valid_rate r). { rewrite Forall_forall in Hv. apply Hv. eapply nth_error_In; eassumption. }
      destruct (new_bucket_spec (inow I) r Hvr) as (Hb & Hc). split; [assumption|]. split; [assumption|].
      cbn [map to_bev ev_t ev_n ev_out bvalid sorted_from].
      unfold ireq at 1 2. cbn [snd]. rewrite Es.
      pose proof (new_set_spec (inow I) (rates c) Hv) as Hnew.
      destruct (consume_set_spec (rates c) (inow I) n _ (inow I) Hnew (Z.le_refl _) Hn) as (E' & Hadm & _).
      assert (Eb : nth_error (new_set (inow I) (rates c)) i = Some (new_bucket (inow I) r)).
      { unfold new_set. rewrite nth_error_map, Hr. reflexivity. }
      destruct (known_source c src Hv Hp ops (istep c I (Req src n h)) (snd (consume_set (inow I) n (new_set (inow I) (rates c)))) i
                  (bstep (inow I) n (is_admit (fst (consume_set (inow I) n (new_set (inow I) (rates c))))) (new_bucket (inow I) r)) Hi' Ham) as (A & B).
      { cbn [istep]. unfold ireq; cbn [fst imap]. rewrite Z.eqb_refl, Es. reflexivity. }
      { rewrite E'. rewrite nth_error_map, Eb. reflexivity. }
      split; [split; [lia|split; [assumption|exact B]]|].
      split; [|exact A]. intros Hcm. apply Hadm; [assumption|]. eapply nth_error_In; eassumption.
    + cbn in Ham. apply (IH (istep c I (Tick d))); [apply Iinv_tick; assumption|assumption].
    + cbn in Ham. apply (IH (istep c I WaitAdvertised)); [apply Iinv_tick; assumption|assumption]. Qed.

(* ---------- windows ---------- *)
Lemma filter_split {A} (p : A -> bool) l a b : filter p l = a ++ b ->
  exists l1 l2, l = l1 ++ l2 /\ filter p l1 = a /\ filter p l2 = b.
Proof. revert a b. induction l as [|x l IH]; cbn; intros a b E.
  - destruct a; [|discriminate]. destruct b; [|discriminate]. exists [], []. auto.
  - destruct (p x) eqn:Ex.
    + destruct a as [|y a].
      * exists [], (x :: l). cbn. rewrite Ex. auto.
      * cbn in E. injection E as Exy E'. subst y. destruct (IH _ _ E') as (l1 & l2 & -> & F1 & F2).
        exists (x :: l1), l2. cbn. rewrite Ex, F1. auto.
    + destruct (IH _ _ E) as (l1 & l2 & -> & F1 & F2). exists (x :: l1), l2. cbn. rewrite Ex. auto. Qed.

Lemma ievents_split c : forall ops I a b, ievents c I ops = a ++ b ->
  exists ops1 ops2, ops = ops1 ++ ops2 /\ ievents c I ops1 = a /\ ievents c (iexec c I ops1) ops2 = b.
Proof. induction ops as [|o ops IH]; intros I a b E.
  - cbn in E. destruct a; [|discriminate]. destruct b; [|discriminate]. exists [], []. auto.
  - destruct a as [|e a].
    + exists [], (o :: ops). auto.
    + destruct o as [s n h|d|]; cbn [ievents] in E.
      * injection E as Ee E'. subst e. destruct (IH _ _ _ E') as (o1 & o2 & -> & E1 & E2). exists (Req s n h :: o1), o2. split; [reflexivity|]. split; [cbn [ievents]; f_equal; exact E1|exact E2].
      * destruct (IH _ _ _ E) as (o1 & o2 & -> & E1 & E2). exists (Tick d :: o1), o2. split; [reflexivity|]. split; [exact E1|exact E2].
      * destruct (IH _ _ _ E) as (o1 & o2 & -> & E1 & E2). exists (WaitAdvertised :: o1), o2. split; [reflexivity|]. split; [exact E1|exact E2]. Qed.

Lemma amounts_ok_app a b : amounts_ok (a ++ b) -> amounts_ok a /\ amounts_ok b.
Proof. induction a as [|o a IH]; cbn; [tauto|]. destruct o; cbn; intuition. Qed.

Lemma bvalid_prefix a b0 : forall b, bvalid (a ++ b) b0 -> bvalid a b0.
Proof. revert b0. induction a as [|[[t n] c] a IH]; cbn; intros b0 b H; [exact I|]. destruct H as (H1 & H2). split; [assumption|]. eapply IH; eassumption. Qed.

Lemma sorted_prefix a : forall t b, sorted_from t (a ++ b) -> sorted_from t a.
Proof. induction a as [|[[t' n] c] a IH]; cbn; intros t b H; [exact I|]. destruct H as (H1 & H2 & H3). repeat split; try assumption. eapply IH; eassumption. Qed.

Definition admitted_sum (w : list event) : Z :=
  fold_right (fun e a => (if is_admit (ev_out e) then ev_n e else 0) + a) 0 w.

Lemma committed_to_bev w : committed (map to_bev w) = admitted_sum w.
Proof. induction w as [|e w IH]; cbn; [reflexivity|]. rewrite IH. reflexivity. Qed.

Lemma last_time_to_bev w t e : last_time t (map to_bev w) = ev_t (List.last w e) \/ w = [].
Proof. destruct w as [|x w]; [right; reflexivity|left]. revert t x. induction w as [|y w IH]; intros t x; [reflexivity|].
  change (last_time t (map to_bev (x :: y :: w))) with (last_time (ev_t x) (map to_bev (y :: w))).
  rewrite (IH (ev_t x) y). reflexivity. Qed.

Definition tpt_of (r : rate) : Z := time_per_token (r_period r) (r_average r).

(* the bound on the ideal limiter: any source, any rate, any window of the source's requests *)
Theorem ideal_window_bound c start ops src i r pre e1 w post :
  valid_rates (rates c) -> amounts_ok ops -> nth_error (rates c) i = Some r ->
  filter (of_src src) (ievents c (iinit start) ops) = pre ++ (e1 :: w) ++ post ->
  admitted_sum (e1 :: w) <= r_burst r + (ev_t (List.last w e1) - ev_t e1) / tpt_of r + 1.
Proof. intros (Hv & Hp & _) Ham Hr E.
  destruct (filter_split _ _ _ _ E) as (l1 & l2 & El & F1 & F2).
  destruct (ievents_split c _ _ _ _ El) as (o1 & o2 & -> & E1 & E2).
  destruct (amounts_ok_app _ _ Ham) as (Ham1 & Ham2).
  assert (Hi0 : Iinv c (iinit start)) by (intros k bs; cbn; discriminate).
  pose proof (Iinv_exec c o1 Hv Hp _ Hi0 Ham1) as Hi1.
  destruct (source_history c src i r Hv Hp Hr o2 _ Hi1 Ham2) as [Hnil|(b0 & t0 & Hb & (Hcp & Hct & Hcb) & Hs & Hbv)].
  - rewrite E2, F2 in Hnil. discriminate.
  - rewrite E2, F2, map_app in Hs, Hbv. apply sorted_prefix in Hs. apply bvalid_prefix in Hbv.
    cbn [map] in Hs, Hbv. unfold to_bev at 1 in Hs. unfold to_bev at 1 in Hbv.
    pose proof (bucket_window b0 t0 (ev_t e1) (ev_n e1) (is_admit (ev_out e1)) (map to_bev w) Hb Hs Hbv) as Hw.
    change ((ev_t e1, ev_n e1, is_admit (ev_out e1)) :: map to_bev w) with (map to_bev (e1 :: w)) in Hw.
    rewrite committed_to_bev in Hw. rewrite Hcb, Hct in Hw. unfold tpt_of.
    destruct (last_time_to_bev w (ev_t e1) e1) as [El' | -> ]; [rewrite El' in Hw; exact Hw|].
    cbn in Hw |- *. exact Hw. Qed.

(* ... and on the real limiter, whenever it is guaranteed *)
Theorem limiter_window_bound c U start ops src i r pre e1 w post :
  valid_rates (rates c) -> refill_ok (rates c) -> fits c U ops -> amounts_ok ops ->
  nth_error (rates c) i = Some r ->
  filter (of_src src) (events c (init start) ops) = pre ++ (e1 :: w) ++ post ->
  admitted_sum (e1 :: w) <= r_burst r + (ev_t (List.last w e1) - ev_t e1) / tpt_of r + 1.
Proof. intros Hv Hr Hf Ham Hn E.
  rewrite (refines c U Hv Hr ops _ _ (Rel_init c U start) Hf Ham) in E.
  eapply ideal_window_bound; eassumption. Qed.

(* ---------- the "5 x average" rule of thumb ---------- *)
Lemma rates_max_period_ge rs r : In r rs -> r_period r <= rates_max_period rs.
Proof. induction rs as [|x rs IH]; cbn; intros H; [tauto|]. destruct H as [->|H]; [lia|]. specialize (IH H). unfold rates_max_period in IH. lia. Qed.

Theorem five_x_refills rs :
  (forall r, In r rs -> second <= r_period r /\ 1 <= r_average r <= r_period r /\ 0 <= r_burst r <= 5 * r_average r) ->
  refill_ok rs.
Proof. intros H r Hin. unfold Consts.ttlPerSecondOfPeriod. destruct (H r Hin) as (Hp & (Ha1 & Ha2) & (Hb1 & Hb2)).
  pose proof (rates_max_period_ge rs r Hin) as Hm. pose proof second_pos as Hs.
  unfold time_per_token.
  assert (Hq : 1 <= r_period r / r_average r) by (apply Z.div_le_lower_bound; lia).
  destruct (Z.leb_spec (r_period r / r_average r) 0); [lia|].
  assert (r_average r * (r_period r / r_average r) <= r_period r) by (apply Z.mul_div_le; lia).
  set (M := rates_max_period rs) in *.
  assert (1 <= M / second) by (apply Z.div_le_lower_bound; lia).
  pose proof (Z.div_mod M second ltac:(lia)). pose proof (Z.mod_pos_bound M second ltac:(lia)). nia. Qed.
