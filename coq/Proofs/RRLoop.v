(* The Go `for {}` of nextServer (Model.RR.next_loop, verbatim) refined to the slot view:
   from the state reached just before slot t, one call returns the first selected slot at or after t. *)
From Coq Require Import ZArith List Arith Lia Bool.
Import ListNotations.
From Oxy Require Import Base.Prelude Model.RR Proofs.RRCount Proofs.RRSlots.
Close Scope Z_scope.

Lemma filter_first (f : nat -> bool) len : forall s,
  (forall j, j < len -> f (s + j) = false) \/
  (exists d, d < len /\ (forall j, j < d -> f (s + j) = false) /\ f (s + d) = true /\
     filter f (seq s len) = (s + d) :: filter f (seq (s + d + 1) (len - d - 1))).
Proof. induction len as [|len IH]; intros s; [left; intros; lia|].
  destruct (f s) eqn:E.
  - right. exists 0. rewrite Nat.add_0_r. repeat split; try lia; try assumption.
    replace (s + 1) with (S s) by lia. replace (S len - 0 - 1) with len by lia.
    cbn [seq filter]. rewrite E. reflexivity.
  - destruct (IH (S s)) as [H|(d & Hd & Hno & Hyes & Hf)].
    + left. intros j Hj. destruct j; [rewrite Nat.add_0_r; exact E|].
      replace (s + S j) with (S s + j) by lia. apply H; lia.
    + right. exists (S d). repeat split; try lia.
      * intros j Hj. destruct j; [rewrite Nat.add_0_r; exact E|].
        replace (s + S j) with (S s + j) by lia. apply Hno; lia.
      * replace (s + S d) with (S s + d) by lia. exact Hyes.
      * replace (s + S d + 1) with (S s + d + 1) by lia.
        replace (S len - S d - 1) with (len - d - 1) by lia.
        replace (s + S d) with (S s + d) by lia.
        cbn [seq filter]. rewrite E, Hf. reflexivity.
Qed.

Lemma filter_none (f : nat -> bool) s len :
  (forall j, j < len -> f (s + j) = false) -> filter f (seq s len) = [].
Proof. revert s; induction len as [|len IH]; intros s H; [reflexivity|].
  cbn [seq filter]. specialize (H 0 ltac:(lia)) as H0. rewrite Nat.add_0_r in H0. rewrite H0.
  apply IH. intros j Hj. replace (S s + j) with (s + S j) by lia. apply H; lia. Qed.


Section Loop.
Variable ws : list Z.
Variable g m : Z.
Variable M : nat.
Let n := length ws.
Hypothesis n_pos : 0 < n.
Hypothesis M_pos : 0 < M.
Hypothesis g_pos : (0 < g)%Z.
Hypothesis m_eq : (m = g * Z.of_nat M)%Z.

Notation col := (col ws).
Notation row := (row ws M).
Notation lvl := (lvl g m).
Notation sel := (sel ws g m M).
Notation seli := (seli ws g m M).
Notation P := (P ws M).

(* the Go loop, verbatim: Model.RR.next_loop *)
Notation loop := (next_loop ws g m).

(* state just before slot t is examined *)
Definition pre (t : nat) (i cw : Z) : Prop :=
  (t = 0 /\ i = (-1)%Z /\ cw = 0%Z) \/
  (0 < t /\ i = Z.of_nat (col (t - 1)) /\ cw = lvl (row (t - 1))).

Lemma lvl_pos r : r < M -> (0 < lvl r)%Z.
Proof. intros. unfold RRSlots.lvl. rewrite m_eq. nia. Qed.

Lemma row_lt t : row t < M.
Proof. unfold RRSlots.row. apply Nat.mod_upper_bound. lia. Qed.

Lemma col_lt t : col t < n.
Proof. unfold RRSlots.col. apply Nat.mod_upper_bound. fold n. lia. Qed.

(* one iteration moves from slot t-1 to slot t *)
Lemma step_slot t i cw : pre t i cw ->
  let i' := ((i + 1) mod Z.of_nat n)%Z in
  let cw' := if (i' =? 0)%Z then (if (cw - g <=? 0)%Z then m else cw - g)%Z else cw in
  i' = Z.of_nat (col t) /\ cw' = lvl (row t).
Proof.
  intros [(Ht & Hi & Hc)|(Ht & Hi & Hc)] i' cw'; subst i' cw'.
  - subst. cbn [Z.add]. replace (-1 + 1)%Z with 0%Z by lia.
    rewrite Z.mod_0_l by (fold n; lia). cbn.
    unfold RRSlots.col, RRSlots.row, RRSlots.lvl. fold n.
    rewrite Nat.mod_0_l, Nat.div_0_l, Nat.mod_0_l by lia.
    destruct (Z.leb_spec (- g) 0); split; cbn; lia.
  - subst i cw.
    assert (Hn : n <> 0) by lia.
    pose proof (Nat.div_mod (t - 1) n Hn) as E1.
    pose proof (Nat.mod_upper_bound (t - 1) n Hn) as B1.
    set (q := (t - 1) / n) in *. set (c := (t - 1) mod n) in *.
    assert (Et : t = n * q + c + 1) by lia.
    assert (Hc1 : col (t - 1) = c) by reflexivity. rewrite !Hc1.
    assert (Hr1 : row (t - 1) = q mod M) by reflexivity. rewrite !Hr1.
    destruct (Nat.eq_dec (c + 1) n) as [Hw|Hw].
    + (* wrap to column 0, next row *)
      assert (Hcol : col t = 0).
      { unfold RRSlots.col; fold n. symmetry. apply Nat.mod_unique with (q := q + 1); lia. }
      assert (Hdiv : t / n = q + 1).
      { symmetry. apply Nat.div_unique with (r := 0); lia. }
      assert (Hi' : ((Z.of_nat c + 1) mod Z.of_nat n = 0)%Z).
      { replace (Z.of_nat c + 1)%Z with (Z.of_nat n) by lia. apply Z.mod_same. lia. }
      rewrite Hi', Hcol. cbn [Z.eqb Z.of_nat]. split; [reflexivity|].
      unfold RRSlots.row; fold n; fold q. rewrite Hdiv.
      pose proof (Nat.mod_upper_bound q M ltac:(lia)) as Bq.
      unfold RRSlots.lvl.
      destruct (Nat.eq_dec (q mod M + 1) M) as [Hr|Hr].
      * assert (Hz : (q + 1) mod M = 0).
        { pose proof (Nat.div_mod q M ltac:(lia)).
          symmetry. apply Nat.mod_unique with (q := q / M + 1); lia. }
        rewrite Hz. destruct (Z.leb_spec (m - g * Z.of_nat (q mod M) - g) 0); nia.
      * assert (Hz : (q + 1) mod M = q mod M + 1).
        { pose proof (Nat.div_mod q M ltac:(lia)).
          symmetry. apply Nat.mod_unique with (q := q / M); lia. }
        rewrite Hz. destruct (Z.leb_spec (m - g * Z.of_nat (q mod M) - g) 0); nia.
    + (* same row *)
      assert (Hcol : col t = c + 1).
      { unfold RRSlots.col; fold n. symmetry. apply Nat.mod_unique with (q := q); lia. }
      assert (Hdiv : t / n = q).
      { symmetry. apply Nat.div_unique with (r := c + 1); lia. }
      assert (Hi' : ((Z.of_nat c + 1) mod Z.of_nat n = Z.of_nat (c + 1))%Z).
      { rewrite Z.mod_small; lia. }
      rewrite Hi', Hcol. destruct (Z.eqb_spec (Z.of_nat (c + 1)) 0); [lia|].
      split; [reflexivity|]. unfold RRSlots.row; fold n; fold q. rewrite Hdiv. reflexivity.
Qed.

Lemma pre_next t : pre (S t) (Z.of_nat (col t)) (lvl (row t)).
Proof. right. replace (S t - 1) with t by lia. repeat split; lia. Qed.

(* one iteration of the Go loop, in slot terms *)
Lemma loop_step t i cw f : pre t i cw ->
  loop (S f) i cw =
    if (lvl (row t) <=? RRSlots.wt ws (col t))%Z then Sel (Z.of_nat (col t)) (lvl (row t))
    else loop f (Z.of_nat (col t)) (lvl (row t)).
Proof.
  intros Hp. destruct (step_slot t i cw Hp) as [Hi Hc]. cbv zeta in Hi, Hc.
  assert (Hge : (0 <= i + 1)%Z) by (destruct Hp as [(_ & -> & _)|(_ & -> & _)]; lia).
  assert (Hm : (0 < m)%Z) by (rewrite m_eq; nia).
  assert (Hmz : (m =? 0)%Z = false) by (apply Z.eqb_neq; lia).
  cbn [next_loop]. fold n. rewrite Z.rem_mod_nonneg by lia.
  rewrite Hi in Hc |- *.
  unfold znth. rewrite Nat2Z.id. fold (RRSlots.wt ws (col t)).
  destruct (Z.of_nat (col t) =? 0)%Z.
  - destruct (cw - g <=? 0)%Z; rewrite <- Hc, ?Hmz, Z.geb_leb; reflexivity.
  - rewrite <- Hc, Z.geb_leb. reflexivity.
Qed.

Lemma loop_skip t i cw f : pre t i cw -> sel t = false ->
  exists i' cw', pre (S t) i' cw' /\ loop (S f) i cw = loop f i' cw'.
Proof. intros Hp Hs. exists (Z.of_nat (col t)), (lvl (row t)). split; [apply pre_next|].
  rewrite (loop_step t i cw f Hp). unfold RRSlots.sel in Hs. rewrite Hs. reflexivity. Qed.

Lemma loop_hit t i cw f : pre t i cw -> sel t = true ->
  loop (S f) i cw = Sel (Z.of_nat (col t)) (lvl (row t)).
Proof. intros Hp Hs. rewrite (loop_step t i cw f Hp). unfold RRSlots.sel in Hs. rewrite Hs. reflexivity. Qed.

Lemma loop_first d : forall t i cw F, pre t i cw ->
  (forall j, j < d -> sel (t + j) = false) -> sel (t + d) = true -> d < F ->
  loop F i cw = Sel (Z.of_nat (col (t + d))) (lvl (row (t + d))).
Proof. induction d as [|d IH]; intros t i cw F Hp Hno Hyes HF.
  - destruct F; [lia|]. rewrite Nat.add_0_r in *. apply loop_hit; assumption.
  - destruct F; [lia|].
    destruct (loop_skip t i cw F Hp) as (i' & cw' & Hp' & E).
    { specialize (Hno 0 ltac:(lia)). rewrite Nat.add_0_r in Hno. exact Hno. }
    rewrite E. replace (t + S d) with (S t + d) in * by lia.
    apply IH; try assumption; try lia.
    intros j Hj. specialize (Hno (S j) ltac:(lia)). replace (S t + j) with (t + S j) by lia. exact Hno.
Qed.

(* k consecutive calls of nextServer *)
Fixpoint run (F k : nat) (i cw : Z) : option (list Z) :=
  match k with
  | O => Some []
  | S k' => match loop F i cw with
            | Sel i' cw' => option_map (cons i') (run F k' i' cw')
            | _ => None
            end
  end.

Definition sels (s len : nat) : list Z := map (fun t => Z.of_nat (col t)) (filter sel (seq s len)).

(* the k selections made from the state before slot s are the selected slots of [s, s+len) *)
Lemma run_sels len : forall s i cw F, pre s i cw -> len <= F ->
  run F (cnt sel s len) i cw = Some (sels s len).
Proof. induction len as [len IH] using lt_wf_ind. intros s i cw F Hp HF.
  destruct (filter_first sel len s) as [Hnone|(d & Hd & Hno & Hyes & Hf)].
  - unfold cnt, sels. rewrite filter_none by assumption. reflexivity.
  - unfold cnt, sels. rewrite Hf. cbn [length map run].
    rewrite (loop_first d s i cw F Hp Hno Hyes) by lia.
    replace (s + d + 1) with (S (s + d)) by lia.
    specialize (IH (len - d - 1) ltac:(lia) (S (s + d)) _ _ F (pre_next (s + d)) ltac:(lia)).
    unfold cnt, sels in IH. rewrite IH. reflexivity.
Qed.

End Loop.
