(* Lemmas about the byte-string model of utils/source.go and the hand model of net.SplitHostPort. *)
From Oxy Require Import Base.Prelude Model.Source.
Open Scope Z_scope.

(* ---------- byte strings ---------- *)
Lemma beq_refl a : beq a a = true.
Proof. induction a as [|x a IH]; cbn; [reflexivity|]. rewrite Z.eqb_refl. exact IH. Qed.

Lemma beq_eq a b : beq a b = true <-> a = b.
Proof. split; [|intros ->; apply beq_refl].
  revert b; induction a as [|x a IH]; intros [|y b]; cbn; try discriminate; [reflexivity|].
  intros H. apply andb_prop in H. destruct H as [H1 H2]. apply Z.eqb_eq in H1. apply IH in H2. congruence. Qed.

Lemma beq_neq a b : beq a b = false <-> a <> b.
Proof. split.
  - intros H E. apply beq_eq in E. congruence.
  - intros H. destruct (beq a b) eqn:E; [|reflexivity]. apply beq_eq in E. contradiction. Qed.

Lemma contains_In c s : contains c s = true <-> In c s.
Proof. unfold contains. rewrite existsb_exists. split.
  - intros (x & Hin & E). apply Z.eqb_eq in E. subst. exact Hin.
  - intros H. exists c. split; [exact H|apply Z.eqb_refl]. Qed.

Lemma contains_cons c x s : contains c (x :: s) = (c =? x) || contains c s.
Proof. reflexivity. Qed.

Lemma contains_app c a b : contains c (a ++ b) = contains c a || contains c b.
Proof. apply existsb_app. Qed.

Lemma skipn_len_app (a b : bytes) : skipn (length a) (a ++ b) = b.
Proof. induction a; cbn; auto. Qed.

Lemma firstn_len_app (a b : bytes) : firstn (length a) (a ++ b) = a.
Proof. induction a; cbn; congruence. Qed.

Lemma index_app_first c a b : contains c a = false -> index c (a ++ c :: b) = Some (length a).
Proof. induction a as [|x a IH]; cbn [app index length].
  - rewrite Z.eqb_refl. reflexivity.
  - rewrite contains_cons. intros H. apply orb_false_elim in H. destruct H as [H1 H2].
    rewrite Z.eqb_sym in H1. rewrite H1, (IH H2). reflexivity. Qed.

Lemma index_none c s : contains c s = false -> index c s = None.
Proof. induction s as [|x s IH]; cbn [index]; [reflexivity|].
  rewrite contains_cons. intros H. apply orb_false_elim in H. destruct H as [H1 H2].
  rewrite Z.eqb_sym in H1. rewrite H1, (IH H2). reflexivity. Qed.

Lemma last_index_none c s : contains c s = false -> last_index c s = None.
Proof. induction s as [|x s IH]; cbn [last_index]; [reflexivity|].
  rewrite contains_cons. intros H. apply orb_false_elim in H. destruct H as [H1 H2].
  rewrite Z.eqb_sym in H1. rewrite H1, (IH H2). reflexivity. Qed.

Lemma last_index_app_last c a b : contains c b = false -> last_index c (a ++ c :: b) = Some (length a).
Proof. intros Hb. induction a as [|x a IH]; cbn [app last_index length].
  - rewrite (last_index_none _ _ Hb), Z.eqb_refl. reflexivity.
  - rewrite IH. reflexivity. Qed.

Lemma last_index_none_inv c s : last_index c s = None -> contains c s = false.
Proof. induction s as [|y s IHs]; [reflexivity|]. cbn [last_index].
  destruct (last_index c s); [discriminate|]. destruct (Z.eqb_spec y c); [discriminate|]. intros _.
  rewrite contains_cons, IHs by reflexivity. destruct (Z.eqb_spec c y); [congruence|reflexivity]. Qed.

(* decomposition at the index found *)
Lemma index_some c s e : index c s = Some e ->
  s = firstn e s ++ c :: skipn (S e) s /\ contains c (firstn e s) = false /\ (e < length s)%nat.
Proof. revert e; induction s as [|x s IH]; cbn [index]; intros e H; [discriminate|].
  destruct (Z.eqb_spec x c) as [->|Hne].
  - inv H. cbn. repeat split. lia.
  - destruct (index c s) as [i|] eqn:E; [|discriminate]. inv H.
    destruct (IH i eq_refl) as (A & B & C). cbn [firstn skipn app length]. repeat split.
    + f_equal. exact A.
    + rewrite contains_cons, B. destruct (Z.eqb_spec c x); [congruence|reflexivity].
    + lia. Qed.

Lemma last_index_some c s i : last_index c s = Some i ->
  s = firstn i s ++ c :: skipn (S i) s /\ contains c (skipn (S i) s) = false /\ (i < length s)%nat.
Proof. revert i; induction s as [|x s IH]; cbn [last_index]; intros i H; [discriminate|].
  destruct (last_index c s) as [j|] eqn:E.
  - inv H. destruct (IH j eq_refl) as (A & B & C). cbn [firstn skipn app length]. repeat split.
    + f_equal. exact A.
    + exact B.
    + lia.
  - destruct (Z.eqb_spec x c) as [->|Hne]; [|discriminate]. inv H. cbn [firstn skipn app length]. repeat split; [|lia].
    apply last_index_none_inv. exact E. Qed.

Lemma strip_prefix_spec p s r : strip_prefix p s = Some r <-> s = p ++ r.
Proof. revert s; induction p as [|x p IH]; intros s; cbn.
  - split; congruence.
  - destruct s as [|y s]; [split; discriminate|].
    destruct (Z.eqb_spec x y) as [->|Hne].
    + rewrite IH. split; congruence.
    + split; [discriminate|]. intros H. inv H. congruence. Qed.

Lemma strip_prefix_none p s : strip_prefix p s = None <-> forall r, s <> p ++ r.
Proof. split.
  - intros H r E. apply strip_prefix_spec in E. congruence.
  - intros H. destruct (strip_prefix p s) as [r|] eqn:E; [|reflexivity]. apply strip_prefix_spec in E. destruct (H r E). Qed.

(* ---------- SplitHostPort inverts JoinHostPort ---------- *)
Lemma skipn_S_len_app (a : bytes) x b : skipn (S (length a)) (a ++ x :: b) = b.
Proof. induction a; cbn; auto. Qed.

Lemma split_join_v6 host port :
  contains c_lbr host = false -> contains c_rbr host = false ->
  contains c_colon port = false -> contains c_lbr port = false -> contains c_rbr port = false ->
  split_host_port (c_lbr :: host ++ c_rbr :: c_colon :: port) = inl (host, port).
Proof. intros Hl Hr Pc Pl Pr.
  set (hp := c_lbr :: host ++ c_rbr :: c_colon :: port).
  assert (F1 : last_index c_colon hp = Some (S (S (length host)))).
  { unfold hp. replace (c_lbr :: host ++ c_rbr :: c_colon :: port) with ((c_lbr :: host ++ [c_rbr]) ++ c_colon :: port)
      by (cbn; rewrite <- app_assoc; reflexivity).
    rewrite (last_index_app_last _ _ _ Pc). cbn [length]. rewrite app_length. cbn [length]. f_equal. lia. }
  assert (F2 : index c_rbr hp = Some (S (length host))).
  { unfold hp. change (c_lbr :: host ++ c_rbr :: c_colon :: port) with ((c_lbr :: host) ++ c_rbr :: c_colon :: port).
    rewrite index_app_first; [reflexivity|]. rewrite contains_cons, Hr. reflexivity. }
  assert (F3 : length hp = (length host + length port + 3)%nat).
  { unfold hp. cbn [length]. rewrite app_length. cbn [length]. lia. }
  assert (F4 : skipn 1 hp = host ++ c_rbr :: c_colon :: port) by reflexivity.
  assert (F5 : skipn (S (S (length host))) hp = c_colon :: port).
  { unfold hp. cbn [skipn]. apply skipn_S_len_app. }
  assert (F6 : skipn (S (S (S (length host)))) hp = port).
  { change (skipn (S (S (S (length host)))) hp) with (skipn (S (S (length host))) (host ++ c_rbr :: c_colon :: port)).
    replace (host ++ c_rbr :: c_colon :: port) with ((host ++ [c_rbr]) ++ c_colon :: port)
      by (rewrite <- app_assoc; reflexivity).
    replace (S (length host)) with (length (host ++ [c_rbr])) by (rewrite app_length; cbn; lia).
    apply skipn_S_len_app. }
  assert (F7 : slice hp 1 (S (length host)) = host).
  { unfold slice. rewrite F4. replace (S (length host) - 1)%nat with (length host) by lia. apply firstn_len_app. }
  assert (F0 : nth 0 hp 0 = c_lbr) by reflexivity.
  clearbody hp. unfold split_host_port. rewrite F1, F0, Z.eqb_refl, F2, F3.
  replace (Nat.eqb (S (S (length host))) (length host + length port + 3)) with false
    by (symmetry; apply Nat.eqb_neq; lia).
  rewrite Nat.eqb_refl. unfold shp_tail. rewrite F4, F5, F6, F7.
  rewrite contains_app, Hl, !contains_cons, Pl, Pr. reflexivity. Qed.

Lemma split_join_v4 host port :
  contains c_colon host = false -> contains c_lbr host = false -> contains c_rbr host = false ->
  contains c_colon port = false -> contains c_lbr port = false -> contains c_rbr port = false ->
  split_host_port (host ++ c_colon :: port) = inl (host, port).
Proof. intros Hc Hl Hr Pc Pl Pr.
  set (hp := host ++ c_colon :: port).
  assert (F1 : last_index c_colon hp = Some (length host)) by (apply last_index_app_last; exact Pc).
  assert (F0 : (nth 0 hp 0 =? c_lbr) = false).
  { unfold hp. destruct host as [|x host]; cbn [app nth]; [reflexivity|]. rewrite contains_cons in Hl.
    apply orb_false_elim in Hl. rewrite Z.eqb_sym. tauto. }
  assert (F2 : firstn (length host) hp = host) by apply firstn_len_app.
  assert (F3 : skipn (S (length host)) hp = port) by apply skipn_S_len_app.
  assert (F4 : contains c_lbr hp = false) by (unfold hp; rewrite contains_app, contains_cons, Hl, Pl; reflexivity).
  assert (F5 : contains c_rbr hp = false) by (unfold hp; rewrite contains_app, contains_cons, Hr, Pr; reflexivity).
  clearbody hp. unfold split_host_port. rewrite F1, F0, F2, Hc. unfold shp_tail. change (skipn 0 hp) with hp.
  rewrite F4, F5, F3. reflexivity. Qed.

Lemma split_join host port :
  contains c_lbr host = false -> contains c_rbr host = false ->
  contains c_colon port = false -> contains c_lbr port = false -> contains c_rbr port = false ->
  split_host_port (join_host_port host port) = inl (host, port).
Proof. intros Hl Hr Pc Pl Pr. unfold join_host_port.
  destruct (contains c_colon host) eqn:Hc.
  - cbn [app]. apply split_join_v6; assumption.
  - cbn [app]. apply split_join_v4; assumption. Qed.

Lemma app_eq_len {A} (a a' x y : list A) : a ++ x = a' ++ y -> length a = length a' -> a = a' /\ x = y.
Proof. revert a'; induction a as [|u a IH]; intros [|v a']; cbn; intros H L; try discriminate; [auto|].
  injection H as -> H. destruct (IH a' H) as [-> ->]; [lia|auto]. Qed.

Lemma index_some' c s e : index c s = Some e ->
  exists a b, s = a ++ c :: b /\ length a = e /\ contains c a = false.
Proof. intros H. destruct (index_some _ _ _ H) as (A & B & C).
  exists (firstn e s), (skipn (S e) s). repeat split; [exact A| |exact B]. apply firstn_length_le. lia. Qed.

Lemma last_index_some' c s i : last_index c s = Some i ->
  exists a b, s = a ++ c :: b /\ length a = i /\ contains c b = false.
Proof. intros H. destruct (last_index_some _ _ _ H) as (A & B & C).
  exists (firstn i s), (skipn (S i) s). repeat split; [exact A| |exact B]. apply firstn_length_le. lia. Qed.

(* soundness: whatever SplitHostPort accepts has one of the two JoinHostPort shapes, and the host it
   returns is the text between the delimiters *)
Lemma split_sound hp h p : split_host_port hp = inl (h, p) ->
  (hp = h ++ c_colon :: p /\ contains c_colon h = false \/ hp = c_lbr :: h ++ c_rbr :: c_colon :: p) /\
  contains c_colon p = false.
Proof. unfold split_host_port. destruct (last_index c_colon hp) as [i|] eqn:Ei; [|discriminate].
  destruct (last_index_some' _ _ _ Ei) as (a' & p' & Ehp & La' & Pc).
  destruct (nth 0 hp 0 =? c_lbr) eqn:E0.
  - destruct (index c_rbr hp) as [e|] eqn:Ee; [|discriminate].
    destruct (index_some' _ _ _ Ee) as (a & b & Ehp2 & La & Ra).
    destruct (Nat.eqb (S e) (length hp)); [discriminate|].
    destruct (Nat.eqb_spec (S e) i) as [Hi|]; [|destruct (nth (S e) hp 0 =? c_colon); discriminate].
    unfold shp_tail. destruct (contains c_lbr (skipn 1 hp)); [discriminate|].
    destruct (contains c_rbr (skipn (S e) hp)); [discriminate|]. intros H. injection H as Hh Hp. change (skipn (S i) hp = p) in Hp.
    assert (X : a ++ [c_rbr] = a' /\ b = c_colon :: p').
    { apply app_eq_len; [rewrite <- app_assoc; cbn [app]; congruence | rewrite app_length; cbn [length]; lia]. }
    destruct X as [<- ->]. clear Ehp.
    destruct a as [|x a]. { subst hp. cbn [app nth] in E0. discriminate. }
    subst hp. cbn [app nth] in E0. apply Z.eqb_eq in E0. subst x.
    cbn [length] in La. subst e.
    assert (Hh' : slice ((c_lbr :: a) ++ c_rbr :: c_colon :: p') 1 (S (length a)) = a).
    { unfold slice. cbn [app skipn]. replace (S (length a) - 1)%nat with (length a) by lia. apply firstn_len_app. }
    rewrite Hh' in Hh. subst a.
    assert (Hp' : skipn (S (length ((c_lbr :: h) ++ [c_rbr]))) ((c_lbr :: h) ++ c_rbr :: c_colon :: p') = p').
    { replace ((c_lbr :: h) ++ c_rbr :: c_colon :: p') with (((c_lbr :: h) ++ [c_rbr]) ++ c_colon :: p')
        by (rewrite <- app_assoc; reflexivity).
      apply skipn_S_len_app. }
    rewrite La' in Hp'. rewrite Hp' in Hp. subst p'. split; [right; reflexivity|exact Pc].
  - subst hp i. rewrite firstn_len_app. destruct (contains c_colon a') eqn:Hc; [discriminate|].
    unfold shp_tail. destruct (contains c_lbr _); [discriminate|]. destruct (contains c_rbr _); [discriminate|].
    rewrite skipn_S_len_app. intros H. injection H as -> ->. split; [left; split; [reflexivity|exact Hc]|exact Pc]. Qed.

(* ---------- the client.ip extractor ---------- *)
Lemma client_ip_joined host port :
  host <> [] -> contains c_lbr host = false -> contains c_rbr host = false ->
  contains c_colon port = false -> contains c_lbr port = false -> contains c_rbr port = false ->
  extract_client_ip (join_host_port host port) = Some (host, 1).
Proof. intros Hne Hl Hr Pc Pl Pr. unfold extract_client_ip. rewrite split_join by assumption.
  destruct host; [congruence|reflexivity]. Qed.

Lemma client_ip_no_colon addr : contains c_colon addr = false -> extract_client_ip addr = None.
Proof. intros H. unfold extract_client_ip, split_host_port. rewrite (last_index_none _ _ H). reflexivity. Qed.

Lemma client_ip_missing_rbr r : contains c_rbr r = false -> extract_client_ip (c_lbr :: r) = None.
Proof. intros H. unfold extract_client_ip, split_host_port.
  destruct (last_index c_colon (c_lbr :: r)); [|reflexivity].
  cbn [nth]. rewrite Z.eqb_refl. rewrite index_none; [reflexivity|]. rewrite contains_cons, H. reflexivity. Qed.

Lemma client_ip_some addr h n : extract_client_ip addr = Some (h, n) ->
  n = 1 /\ h <> [] /\ exists p, split_host_port addr = inl (h, p).
Proof. unfold extract_client_ip. destruct (split_host_port addr) as [[h' p]|]; [|discriminate].
  destruct h'; [discriminate|]. intros H. inv H. split; [reflexivity|]. split; [discriminate|]. eauto. Qed.

Lemma client_ip_empty_host_v4 p : extract_client_ip (c_colon :: p) = None.
Proof. destruct (extract_client_ip (c_colon :: p)) as [[h n]|] eqn:E; [|reflexivity].
  apply client_ip_some in E. destruct E as (_ & Hne & q & Hs). apply split_sound in Hs.
  destruct Hs as [[[A B]|A] _].
  - destruct h; [congruence|]. inv A. rewrite contains_cons, Z.eqb_refl in B. discriminate.
  - inv A. Qed.

Lemma client_ip_empty_host_v6 p : extract_client_ip (c_lbr :: c_rbr :: c_colon :: p) = None.
Proof. destruct (extract_client_ip (c_lbr :: c_rbr :: c_colon :: p)) as [[h n]|] eqn:E; [|reflexivity].
  apply client_ip_some in E. destruct E as (_ & Hne & q & Hs).
  (* the bracket branch returns the text between '[' and the first ']' *)
  unfold split_host_port in Hs. destruct (last_index c_colon (c_lbr :: c_rbr :: c_colon :: p)) as [i|]; [|discriminate].
  cbn [nth] in Hs. rewrite Z.eqb_refl in Hs. cbn [index] in Hs. cbn in Hs.
  destruct i as [|[|[|i]]]; cbn in Hs; try discriminate.
  unfold shp_tail in Hs. repeat destr_if_in Hs; try discriminate. inv Hs. congruence. Qed.

(* ---------- NewExtractor ---------- *)
Lemma header_prefix_not_ip X : beq (v_header_prefix ++ X) v_client_ip = false.
Proof. reflexivity. Qed.
Lemma header_prefix_not_host X : beq (v_header_prefix ++ X) v_request_host = false.
Proof. reflexivity. Qed.

Lemma new_extractor_spec var e :
  new_extractor var = Some e <->
  (var = v_client_ip /\ e = ExClientIP) \/ (var = v_request_host /\ e = ExHost) \/
  (exists X, X <> [] /\ var = v_header_prefix ++ X /\ e = ExHeader X).
Proof. unfold new_extractor. split.
  - destruct (beq var v_client_ip) eqn:E1; [apply beq_eq in E1; intros H; inv H; auto|].
    destruct (beq var v_request_host) eqn:E2; [apply beq_eq in E2; intros H; inv H; auto|].
    destruct (strip_prefix v_header_prefix var) as [X|] eqn:E3; [|discriminate].
    apply strip_prefix_spec in E3. destruct X as [|x X]; [discriminate|]. intros H; inv H.
    right; right. exists (x :: X). repeat split. discriminate.
  - intros [[-> ->]|[[-> ->]|(X & Hne & -> & ->)]]; try reflexivity.
    rewrite header_prefix_not_ip, header_prefix_not_host.
    replace (strip_prefix v_header_prefix (v_header_prefix ++ X)) with (Some X)
      by (symmetry; apply strip_prefix_spec; reflexivity).
    destruct X; [congruence|reflexivity]. Qed.

Lemma new_extractor_refused var :
  new_extractor var = None <->
  ~ (var = v_client_ip \/ var = v_request_host \/ exists X, X <> [] /\ var = v_header_prefix ++ X).
Proof. split.
  - intros H [->|[->|(X & Hne & ->)]]; try discriminate.
    assert (E : new_extractor (v_header_prefix ++ X) = Some (ExHeader X)) by (apply new_extractor_spec; eauto 6).
    congruence.
  - intros H. destruct (new_extractor var) as [e|] eqn:E; [|reflexivity]. exfalso. apply H.
    apply new_extractor_spec in E. destruct E as [[-> _]|[[-> _]|(X & Hne & -> & _)]]; eauto. Qed.

Lemma amount_one canon e r t n : extract canon e r = Some (t, n) -> n = 1.
Proof. destruct e; cbn; unfold extract_host, extract_header.
  - intros H. apply client_ip_some in H. tauto.
  - intros H; inv H; reflexivity.
  - intros H; inv H; reflexivity. Qed.

(* header lookup finds the first value stored under the canonical name *)
Lemma header_get_found h1 c vs v h2 :
  (forall k vs', In (k, vs') h1 -> k <> c) ->
  header_get (h1 ++ (c, v :: vs) :: h2) c = v.
Proof. induction h1 as [|[k w] h1 IH]; cbn; intros H.
  - rewrite beq_refl. reflexivity.
  - replace (beq k c) with false by (symmetry; apply beq_neq; eapply H; left; reflexivity).
    apply IH. intros; eapply H; right; eassumption. Qed.

Lemma header_get_absent h c : (forall k vs, In (k, vs) h -> k <> c) -> header_get h c = [].
Proof. induction h as [|[k w] h IH]; cbn; intros H; [reflexivity|].
  replace (beq k c) with false by (symmetry; apply beq_neq; eapply H; left; reflexivity).
  apply IH. intros; eapply H; right; eassumption. Qed.

(* ---------- statements of Props/C19.v with longer proofs ---------- *)
Lemma c19_malformed_error : forall addr,
  contains c_colon addr = false \/
  (exists r, addr = c_lbr :: r /\ contains c_rbr r = false) \/
  (exists p, addr = c_colon :: p) \/
  (exists p, addr = c_lbr :: c_rbr :: c_colon :: p) ->
  extract_client_ip addr = None.
Proof. intros addr [H|[(r & -> & H)|[(p & ->)|(p & ->)]]].
  - apply client_ip_no_colon; exact H.
  - apply client_ip_missing_rbr; exact H.
  - apply client_ip_empty_host_v4.
  - apply client_ip_empty_host_v6. Qed.

Lemma c19_header : forall canon X r,
  X <> [] ->
  new_extractor (v_header_prefix ++ X) = Some (ExHeader X) /\
  (forall h1 v vs h2, req_headers r = h1 ++ (canon X, v :: vs) :: h2 ->
     (forall k vs', In (k, vs') h1 -> k <> canon X) -> extract canon (ExHeader X) r = Some (v, 1)) /\
  ((forall k vs, In (k, vs) (req_headers r) -> k <> canon X) -> extract canon (ExHeader X) r = Some ([], 1)).
Proof. intros canon X r Hne. split; [apply new_extractor_spec; eauto 6|]. split.
  - intros h1 v vs h2 E H. cbn. unfold extract_header. rewrite E, header_get_found by exact H. reflexivity.
  - intros H. cbn. unfold extract_header. rewrite header_get_absent by exact H. reflexivity. Qed.
