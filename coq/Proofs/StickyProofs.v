(* Lemmas about the sticky-session model (Model/Sticky.v).
   Part 1: facts that hold for every library (no contract): soundness of lookups, structure of chains, pool invariants.
   Part 2: Section Contracts — the library is a Section variable with explicit contract hypotheses; after the
   Section closes every hypothesis is a premise of the lemma. *)
From Oxy Require Import Base.Prelude Model.Sticky.
Open Scope Z_scope.

(* ------------------------------------------------------------------------------------------ *)
(* Part 1: any library *)

Lemma match_url_sound L s pool u :
  match_url L s pool = Found u -> In u pool /\ pkey L s = Some (ukey L u).
Proof.
  induction pool as [|a r IH]; cbn; [discriminate|].
  destruct (pkey L s) as [k|] eqn:E; [|discriminate].
  destruct (k =? ukey L a) eqn:Ek.
  - intros H; inv H. apply Z.eqb_eq in Ek. subst. auto.
  - intros H. destruct (IH H) as [A B]. auto.
Qed.

Lemma match_url_complete L s pool k :
  pkey L s = Some k -> (exists m, In m pool /\ ukey L m = k) ->
  exists x, match_url L s pool = Found x /\ In x pool /\ ukey L x = k.
Proof.
  intros Hp. induction pool as [|a r IH]; intros [m [Hin Hk]]; [destruct Hin|].
  cbn [match_url]. rewrite Hp. destruct (k =? ukey L a) eqn:Ek.
  - apply Z.eqb_eq in Ek. exists a. cbn. auto.
  - destruct Hin as [->|Hin]; [apply Z.eqb_neq in Ek; congruence|].
    destruct IH as [x [A [B C]]]; [exists m; auto|]. exists x. cbn. auto.
Qed.

Lemma match_hash_sound L salt v pool u :
  match_hash L salt v pool = Found u -> In u pool /\ v = hash L salt (norm L u).
Proof.
  induction pool as [|a r IH]; cbn; [discriminate|].
  destruct (v =? hash L salt (norm L a)) eqn:E.
  - intros H; inv H. apply Z.eqb_eq in E. auto.
  - intros H. destruct (IH H). auto.
Qed.

Lemma match_hash_complete L salt v pool :
  (exists m, In m pool /\ v = hash L salt (norm L m)) ->
  exists x, match_hash L salt v pool = Found x /\ In x pool /\ v = hash L salt (norm L x).
Proof.
  induction pool as [|a r IH]; intros [m [Hin Hv]]; [destruct Hin|].
  cbn [match_hash]. destruct (v =? hash L salt (norm L a)) eqn:E.
  - apply Z.eqb_eq in E. exists a. cbn. auto.
  - destruct Hin as [->|Hin]; [apply Z.eqb_neq in E; congruence|].
    destruct IH as [x [A [B C]]]; [exists m; auto|]. exists x. cbn. auto.
Qed.

(* FindURL never invents a URL: whatever the cookie string and the chain, a result is a member of the pool handed in *)
Lemma find_url_sound L now c v pool u : find_url L now c v pool = Found u -> In u pool.
Proof.
  revert u. induction c as [|s|k ttl|c1 IH1 c2 IH2]; intros u; cbn [find_url].
  - intros H. apply (match_url_sound _ _ _ _ H).
  - intros H. apply (match_hash_sound _ _ _ _ _ H).
  - destruct (from_value L now k ttl v); [|discriminate]. intros H. apply (match_url_sound _ _ _ _ H).
  - destruct (find_url L now c1 v pool) eqn:E; auto; try (intros H; inv H; auto).
Qed.

Lemma get_backend_sound L now c cookie pool u : get_backend L now c cookie pool = Some u -> In u pool.
Proof.
  unfold get_backend. destruct cookie as [v|]; [|discriminate].
  destruct (find_url L now c v pool) eqn:E; try discriminate. intros H; inv H. eapply find_url_sound; eauto.
Qed.

(* the leaves of a chain in the order FallbackValue.FindURL tries them; the last one mints *)
Fixpoint leaves (c : codec) : list codec :=
  match c with Fallback a b => leaves a ++ leaves b | x => [x] end.

Fixpoint mint_leaf (c : codec) : codec :=
  match c with Fallback _ b => mint_leaf b | x => x end.

Definition atomic (c : codec) : Prop := match c with Fallback _ _ => False | _ => True end.

Lemma leaves_atomic c l : In l (leaves c) -> atomic l.
Proof.
  induction c; cbn; try (intros [<-|[]]; exact I).
  intros H. apply in_app_or in H. tauto.
Qed.

Lemma mint_leaf_in c : In (mint_leaf c) (leaves c).
Proof. induction c; cbn; auto. apply in_or_app. auto. Qed.

Lemma get_mint_leaf L now n c u : get L now n c u = get L now n (mint_leaf c) u.
Proof. induction c; cbn; auto. Qed.

(* whatever a chain finds was found by one of its leaves *)
Lemma find_chain L now v pool (P : Z -> Prop) c :
  (forall l, In l (leaves c) -> forall x, find_url L now l v pool = Found x -> P x) ->
  forall x, find_url L now c v pool = Found x -> P x.
Proof.
  induction c as [|s|k ttl|c1 IH1 c2 IH2]; intros H x; try (apply (H _ (or_introl eq_refl))).
  cbn [find_url]. cbn [leaves] in H.
  destruct (find_url L now c1 v pool) eqn:E.
  - intros Hx; inv Hx. apply IH1; auto. intros l Hl. apply H. apply in_or_app; auto.
  - apply IH2. intros l Hl. apply H. apply in_or_app; auto.
  - apply IH2. intros l Hl. apply H. apply in_or_app; auto.
Qed.

(* a chain finds something as soon as one of its leaves does *)
Lemma find_chain_found L now v pool c l x :
  In l (leaves c) -> find_url L now l v pool = Found x -> exists y, find_url L now c v pool = Found y.
Proof.
  induction c as [|s|k ttl|c1 IH1 c2 IH2]; cbn [leaves].
  1-3: intros [<-|[]] H; eauto.
  intros Hin H. apply in_app_or in Hin. cbn [find_url].
  destruct (find_url L now c1 v pool) eqn:E; eauto.
  - destruct Hin as [Hin|Hin]; [destruct (IH1 Hin H); discriminate|auto].
  - destruct Hin as [Hin|Hin]; [destruct (IH1 Hin H); discriminate|auto].
Qed.

(* a chain none of whose leaves finds anything finds nothing *)
Lemma find_chain_none L now v pool c :
  (forall l x, In l (leaves c) -> find_url L now l v pool <> Found x) ->
  forall x, find_url L now c v pool <> Found x.
Proof.
  intros H x Hx. refine (find_chain L now v pool (fun _ => False) c _ x Hx).
  intros l Hl y Hy. exact (H l y Hl Hy).
Qed.

(* ---- serve ---- *)
Lemma serve_stuck L now n c pool cookie nxt u :
  get_backend L now c cookie pool = Some u -> serve L now n c pool cookie nxt = (200, u, -1).
Proof. unfold serve. intros ->. reflexivity. Qed.

Lemma serve_degrade L now n c pool cookie nxt :
  get_backend L now c cookie pool = None ->
  serve L now n c pool cookie nxt =
    match nxt with None => (500, -1, -1) | Some m => (200, m, get L now n c m) end.
Proof. unfold serve. intros ->. reflexivity. Qed.

Lemma get_backend_none_cases L now c cookie pool :
  cookie = None \/ (exists v, cookie = Some v /\ forall x, find_url L now c v pool <> Found x) ->
  get_backend L now c cookie pool = None.
Proof.
  intros [->|[v [-> H]]]; cbn; [reflexivity|].
  destruct (find_url L now c v pool) eqn:E; auto. destruct (H u); reflexivity.
Qed.

(* never outside the pool, never an error while NextServer delivers a member *)
Lemma serve_in_pool L now n c pool cookie nxt status routed ck :
  serve L now n c pool cookie nxt = (status, routed, ck) ->
  (forall m, nxt = Some m -> In m pool) ->
  (status = 200 /\ In routed pool) \/ (status = 500 /\ nxt = None /\ routed = -1 /\ ck = -1).
Proof.
  unfold serve. destruct (get_backend L now c cookie pool) as [u|] eqn:E.
  - intros H _; inv H. left. split; auto. eapply get_backend_sound; eauto.
  - destruct nxt as [m|]; intros H Hm; inv H; auto.
Qed.

(* ---- the pool: UpsertServer / RemoveServer keep the (scheme, host, path) keys distinct ---- *)
Definition keys L (p : list Z) := map (ukey L) p.

Lemma has_key_spec L p k : has_key L p k = true <-> In k (keys L p).
Proof.
  unfold has_key, keys. rewrite existsb_exists, in_map_iff. split.
  - intros [x [A B]]. apply Z.eqb_eq in B. eauto.
  - intros [x [A B]]. exists x. split; auto. apply Z.eqb_eq; auto.
Qed.

Lemma remove_key_subset L p k x : In x (remove_key L p k) -> In x p.
Proof.
  induction p as [|a r IH]; cbn; auto. destruct (ukey L a =? k); cbn; auto. intros [->|H]; auto.
Qed.

Lemma remove_key_nodup L p k : NoDup (keys L p) -> NoDup (keys L (remove_key L p k)).
Proof.
  induction p as [|a r IH]; cbn; auto. intros H. inv H. destruct (ukey L a =? k); auto.
  cbn. constructor; auto. intros Hin. apply H2. unfold keys in *. apply in_map_iff in Hin.
  destruct Hin as [x [A B]]. apply in_map_iff. exists x. split; auto. eapply remove_key_subset; eauto.
Qed.

Lemma remove_key_gone L p k : NoDup (keys L p) -> ~ In k (keys L (remove_key L p k)).
Proof.
  induction p as [|a r IH]; cbn; auto. intros H. inv H. destruct (ukey L a =? k) eqn:E.
  - apply Z.eqb_eq in E. subst. auto.
  - cbn. intros [A|A]; [apply Z.eqb_neq in E; auto|]. apply IH; auto.
Qed.

Lemma remove_key_other L p k x : In x p -> ukey L x <> k -> In x (remove_key L p k).
Proof.
  induction p as [|a r IH]; cbn; auto. intros [->|H] Hk.
  - destruct (ukey L x =? k) eqn:E; [apply Z.eqb_eq in E; contradiction|cbn; auto].
  - destruct (ukey L a =? k); cbn; auto.
Qed.

Definition upsert_all (P : Z -> Prop) (ops : list op) : Prop :=
  forall u, In (Upsert u) ops -> P u.

Lemma step_pool_inv L c (P : Z -> Prop) s o :
  (forall u, o = Upsert u -> P u) ->
  NoDup (keys L (pool s)) /\ (forall x, In x (pool s) -> P x) ->
  NoDup (keys L (pool (fst (step L c s o)))) /\ (forall x, In x (pool (fst (step L c s o))) -> P x).
Proof.
  intros Ho [Hn Hp]. destruct o as [u|u|d|ck nx nn|]; cbn [step fst pool]; auto.
  - destruct (has_key L (pool s) (ukey L u)) eqn:E; auto. split.
    + unfold keys. rewrite map_app. cbn. apply NoDup_rev in Hn. rewrite <- (rev_involutive (_ ++ _)).
      apply NoDup_rev. rewrite rev_app_distr. cbn. constructor; auto.
      rewrite <- in_rev. intros Hin. apply has_key_spec in Hin. congruence.
    + intros x Hx. apply in_app_or in Hx. destruct Hx as [Hx|[<-|[]]]; auto.
  - split; [apply remove_key_nodup; auto|]. intros x Hx. apply Hp. eapply remove_key_subset; eauto.
  - destruct (serve L (now s) nn c (pool s) ck nx) as [[a b] d]. cbn. auto.
Qed.

Lemma exec_pool_inv L c (P : Z -> Prop) ops : forall s,
  upsert_all P ops ->
  NoDup (keys L (pool s)) /\ (forall x, In x (pool s) -> P x) ->
  NoDup (keys L (pool (exec (step L c) s ops))) /\ (forall x, In x (pool (exec (step L c) s ops)) -> P x).
Proof.
  induction ops as [|o r IH]; intros s Hu Hs; cbn [exec]; auto.
  apply IH.
  - intros u Hin. apply Hu. right; auto.
  - apply step_pool_inv; auto. intros u ->. apply Hu. left; auto.
Qed.

(* membership of a key is decided by the pool operations alone: requests and the clock do not touch the pool,
   Upsert adds the key, Remove deletes exactly that key *)
Lemma step_request_pool L c s ck nx nn : pool (fst (step L c s (Request ck nx nn))) = pool s.
Proof. cbn [step]. destruct (serve L (now s) nn c (pool s) ck nx) as [[a b] d]. reflexivity. Qed.

Lemma step_upsert_has L c s u : has_key L (pool (fst (step L c s (Upsert u)))) (ukey L u) = true.
Proof.
  cbn [step fst pool]. destruct (has_key L (pool s) (ukey L u)) eqn:E; auto.
  apply has_key_spec. unfold keys. rewrite map_app. apply in_or_app. right. cbn. auto.
Qed.

Lemma step_remove_has L c s u :
  NoDup (keys L (pool s)) -> has_key L (pool (fst (step L c s (Remove u)))) (ukey L u) = false.
Proof.
  intros H. cbn [step fst pool]. destruct (has_key L _ _) eqn:E; auto.
  apply has_key_spec in E. destruct (remove_key_gone L _ _ H E).
Qed.

(* ------------------------------------------------------------------------------------------ *)
(* Part 2: the library contracts *)

(* a cookie minted at t0 by leaf m is not yet expired at now: Go compares now.After(Unix(expiry, 0)) *)
Definition fresh (m : codec) (t0 now : Z) : Prop :=
  match m with Aes _ ttl => 0 < ttl -> now <= ((t0 + ttl) / second) * second | _ => True end.

Definition expired (ttl t0 now : Z) : Prop := 0 < ttl /\ ((t0 + ttl) / second) * second < now.

(* a cookie is fresh at the instant it is minted when its TTL is at least one second (the expiry is truncated to
   whole seconds: a shorter TTL can be expired at birth) *)
Lemma fresh_at_mint m now : (forall k ttl, m = Aes k ttl -> 0 < ttl -> second <= ttl) -> fresh m now now.
Proof.
  intros H. destruct m as [|s|k ttl|]; cbn; auto. intros Ht. specialize (H k ttl eq_refl Ht).
  unfold second in *. pose proof (Z.mod_pos_bound (now + ttl) 1000000000 ltac:(lia)).
  pose proof (Z.div_mod (now + ttl) 1000000000 ltac:(lia)). lia.
Qed.

Section Contracts.
  Variable L : lib.
  Variable V : Z -> Prop.   (* the server URLs that are ever put into the pool ("valid server URLs") *)

  (* net/url: Parse(String(u)) keeps scheme, host and path *)
  Hypothesis parse_render : forall u, pkey L (render L u) = Some (ukey L u).
  (* escaping ';' does not change what the URL parses to *)
  Hypothesis parse_rawc : forall u, pkey L (rawc L u) = Some (ukey L u).
  (* normalized(u) is a function of (scheme, host, path) only *)
  Hypothesis norm_key : forall x y, ukey L x = ukey L y -> norm L x = norm L y.
  (* AES-GCM + base64: open k (seal k m) = m; anything that opens under k was sealed under k (forgeries,
     truncations, bit flips, other encodings do not open); a sealed value opens under its own key only *)
  Hypothesis open_seal : forall k n m, aopen L k (seal L k n m) = Some m.
  Hypothesis open_only_sealed : forall k c m, aopen L k c = Some m -> exists n, c = seal L k n m.
  Hypothesis seal_key : forall k n m k' n' m', seal L k n m = seal L k' n' m' -> k = k'.
  (* "url|expiry" splits back at '|' (the URL itself has no raw '|': design note D5), and a rendered URL has no '|' *)
  Hypothesis bar_join : forall s e, bar L (join L s e) = (s, Some (Some e)).
  Hypothesis bar_render : forall u, V u -> snd (bar L (render L u)) = None.
  (* the three value formats are disjoint: hex digits / base64url of >= 29 bytes / a URL with a scheme *)
  Hypothesis hash_not_render : forall s a u, hash L s a <> render L u.
  Hypothesis hash_not_rawc : forall s a u, hash L s a <> rawc L u.
  Hypothesis hash_not_seal : forall s a k n m, hash L s a <> seal L k n m.
  Hypothesis seal_not_render : forall k n m u, seal L k n m <> render L u.
  Hypothesis seal_not_rawc : forall k n m u, seal L k n m <> rawc L u.
  (* read as a URL, a hex or base64 string is a relative path: not the (scheme, host, path) of a server *)
  Hypothesis hash_not_url : forall s a x, V x -> pkey L (hash L s a) <> Some (ukey L x).
  Hypothesis seal_not_url : forall k n m x, V x -> pkey L (seal L k n m) <> Some (ukey L x).
  Hypothesis join_url : forall u e x, V u -> V x ->
    pkey L (join L (render L u) e) = Some (ukey L x) -> ukey L x = ukey L u.
  (* no fnv1a collision among the valid server URLs (for the salts in use) *)
  Hypothesis no_collision : forall s s' x y, V x -> V y ->
    hash L s (norm L x) = hash L s' (norm L y) -> ukey L x = ukey L y.

  Lemma open_sealed k k' n m p : aopen L k (seal L k' n m) = Some p -> k = k' /\ p = m.
  Proof.
    intros H. destruct (open_only_sealed _ _ _ H) as [n' E].
    assert (k' = k) by (eapply seal_key; eauto). subst k'. split; auto.
    rewrite open_seal in H. congruence.
  Qed.

  (* no leaf resolves a cookie minted (by any leaf) for S to a server with another key *)
  Lemma leaf_no_confusion l m t0 n now S pool x :
    atomic l -> atomic m -> V S -> (forall y, In y pool -> V y) ->
    find_url L now l (get L t0 n m S) pool = Found x -> ukey L x = ukey L S.
  Proof.
    intros Hl Hm HS Hpool.
    destruct l as [|s|k ttl|]; [| | |destruct Hl]; destruct m as [|s0|k0 ttl0|]; try destruct Hm;
      cbn [find_url get].
    - (* Raw / Raw *) intros H. destruct (match_url_sound _ _ _ _ H) as [A B].
      rewrite parse_rawc in B. congruence.
    - (* Raw / Hash *) intros H. destruct (match_url_sound _ _ _ _ H) as [A B].
      destruct (hash_not_url _ _ _ (Hpool _ A) B).
    - (* Raw / Aes *) intros H. destruct (match_url_sound _ _ _ _ H) as [A B].
      destruct (seal_not_url _ _ _ _ (Hpool _ A) B).
    - (* Hash / Raw *) intros H. destruct (match_hash_sound _ _ _ _ _ H) as [A B].
      symmetry in B. destruct (hash_not_rawc _ _ _ B).
    - (* Hash / Hash *) intros H. destruct (match_hash_sound _ _ _ _ _ H) as [A B].
      symmetry. eapply no_collision; [exact HS|exact (Hpool _ A)|exact B].
    - (* Hash / Aes *) intros H. destruct (match_hash_sound _ _ _ _ _ H) as [A B].
      symmetry in B. destruct (hash_not_seal _ _ _ _ _ B).
    - (* Aes / Raw *) unfold from_value. destruct (aopen L k (rawc L S)) as [p|] eqn:E; [|discriminate].
      destruct (open_only_sealed _ _ _ E) as [n' E']. symmetry in E'. destruct (seal_not_rawc _ _ _ _ E').
    - (* Aes / Hash *) unfold from_value. destruct (aopen L k (hash L s0 (norm L S))) as [p|] eqn:E; [|discriminate].
      destruct (open_only_sealed _ _ _ E) as [n' E']. destruct (hash_not_seal _ _ _ _ _ E').
    - (* Aes / Aes *) unfold from_value.
      destruct (aopen L k (seal L k0 n _)) as [p|] eqn:E; [|discriminate].
      destruct (open_sealed _ _ _ _ _ E) as [-> ->].
      destruct (0 <? ttl) eqn:Et; destruct (0 <? ttl0) eqn:Et0.
      + rewrite bar_join. destruct (_ <? now); [discriminate|].
        intros H. destruct (match_url_sound _ _ _ _ H) as [A B]. rewrite parse_render in B. congruence.
      + pose proof (bar_render _ HS) as Hb. destruct (bar L (render L S)) as [f sec]. cbn in Hb. subst sec. discriminate.
      + intros H. destruct (match_url_sound _ _ _ _ H) as [A B].
        eapply join_url; [exact HS|exact (Hpool _ A)|exact B].
      + intros H. destruct (match_url_sound _ _ _ _ H) as [A B]. rewrite parse_render in B. congruence.
  Qed.

  (* the leaf that minted the cookie finds a member with the key of S, while the cookie is fresh *)
  Lemma leaf_finds m t0 n now S pool :
    atomic m -> V S -> (forall y, In y pool -> V y) ->
    (exists M, In M pool /\ ukey L M = ukey L S) -> fresh m t0 now ->
    exists x, find_url L now m (get L t0 n m S) pool = Found x.
  Proof.
    intros Hm HS Hpool HM Hf. destruct m as [|s|k ttl|]; [| | |destruct Hm]; cbn [find_url get].
    - destruct (match_url_complete L _ pool _ (parse_rawc S) HM) as [x [A _]]. eauto.
    - destruct HM as [M [HM1 HM2]].
      destruct (match_hash_complete L s (hash L s (norm L S)) pool) as [x [A _]]; eauto.
      exists M. split; auto. f_equal. apply norm_key. auto.
    - unfold from_value. rewrite open_seal. cbn [fresh] in Hf. destruct (0 <? ttl) eqn:Et.
      + rewrite bar_join. apply Z.ltb_lt in Et. specialize (Hf Et).
        destruct (_ <? now) eqn:En; [apply Z.ltb_lt in En; destruct (Z.lt_irrefl _ (Z.lt_le_trans _ _ _ En Hf))|].
        destruct (match_url_complete L _ pool _ (parse_render S) HM) as [x [A _]]. eauto.
      + destruct (match_url_complete L _ pool _ (parse_render S) HM) as [x [A _]]. eauto.
  Qed.

  (* PIN, lookup level: every chain, cookie minted by any leaf of it (in particular by the chain's own Get) *)
  Lemma pin_find c m t0 n now S pool :
    In m (leaves c) -> V S -> (forall y, In y pool -> V y) ->
    (exists M, In M pool /\ ukey L M = ukey L S) -> fresh m t0 now ->
    exists x, find_url L now c (get L t0 n m S) pool = Found x /\ In x pool /\ ukey L x = ukey L S.
  Proof.
    intros Hin HS Hpool HM Hf.
    destruct (leaf_finds m t0 n now S pool (leaves_atomic _ _ Hin) HS Hpool HM Hf) as [x0 Hx0].
    destruct (find_chain_found L now (get L t0 n m S) pool c m x0 Hin Hx0) as [y Hy].
    exists y. split; auto. split; [eapply find_url_sound; eauto|].
    refine (find_chain L now (get L t0 n m S) pool (fun x => ukey L x = ukey L S) c _ y Hy).
    intros l Hl x Hx.
    exact (leaf_no_confusion l m t0 n now S pool x (leaves_atomic _ _ Hl) (leaves_atomic _ _ Hin) HS Hpool Hx).
  Qed.

  (* PIN, request level: whatever NextServer would have answered (rotation state, weights) *)
  Lemma pin_serve c m t0 n n' now S pool nxt :
    In m (leaves c) -> V S -> (forall y, In y pool -> V y) ->
    (exists M, In M pool /\ ukey L M = ukey L S) -> fresh m t0 now ->
    exists x, serve L now n' c pool (Some (get L t0 n m S)) nxt = (200, x, -1) /\ In x pool /\ ukey L x = ukey L S.
  Proof.
    intros Hin HS Hpool HM Hf. destruct (pin_find c m t0 n now S pool Hin HS Hpool HM Hf) as [x [A [B C]]].
    exists x. split; auto. apply serve_stuck. cbn [get_backend]. rewrite A. reflexivity.
  Qed.

  (* with distinct keys in the pool, "a member with the key of S" is THE member *)
  Lemma pin_serve_the_member c m t0 n n' now S pool nxt M :
    In m (leaves c) -> V S -> (forall y, In y pool -> V y) -> NoDup (keys L pool) ->
    In M pool -> ukey L M = ukey L S -> fresh m t0 now ->
    serve L now n' c pool (Some (get L t0 n m S)) nxt = (200, M, -1).
  Proof.
    intros Hin HS Hpool Hnd HM Hk Hf.
    destruct (pin_serve c m t0 n n' now S pool nxt Hin HS Hpool (ex_intro _ M (conj HM Hk)) Hf) as [x [A [B C]]].
    assert (x = M); [|subst; auto].
    clear - Hnd HM B C Hk. rewrite <- Hk in C. clear Hk. induction pool as [|a r IH]; [destruct B|].
    cbn in Hnd. inv Hnd. destruct B as [->|B]; destruct HM as [->|HM]; auto.
    - exfalso. apply H1. rewrite C. apply in_map. auto.
    - exfalso. apply H1. rewrite <- C. apply in_map. auto.
  Qed.

  (* EXPIRY: an expired AES cookie is rejected by its codec ... *)
  Lemma aes_expired k ttl t0 n now S pool :
    expired ttl t0 now -> find_url L now (Aes k ttl) (get L t0 n (Aes k ttl) S) pool = LookupError.
  Proof.
    intros [Ht He]. cbn [find_url get]. unfold from_value. rewrite open_seal.
    assert (0 <? ttl = true) as -> by (apply Z.ltb_lt; auto).
    rewrite bar_join. assert (_ * second <? now = true) as -> by (apply Z.ltb_lt; exact He). reflexivity.
  Qed.

  (* ... and by every chain in which no leaf reuses the same key without a TTL *)
  Lemma expired_chain c k ttl t0 n now S pool :
    expired ttl t0 now -> (forall y, In y pool -> V y) ->
    (forall ttl', In (Aes k ttl') (leaves c) -> 0 < ttl') ->
    forall x, find_url L now c (get L t0 n (Aes k ttl) S) pool <> Found x.
  Proof.
    intros [Ht He] Hpool Hk. apply find_chain_none. intros l x Hl.
    pose proof (leaves_atomic _ _ Hl) as Ha. destruct l as [|s|k' ttl'|]; [| | |destruct Ha]; cbn [find_url get].
    - intros H. destruct (match_url_sound _ _ _ _ H) as [A B]. destruct (seal_not_url _ _ _ _ (Hpool _ A) B).
    - intros H. destruct (match_hash_sound _ _ _ _ _ H) as [A B]. symmetry in B. destruct (hash_not_seal _ _ _ _ _ B).
    - unfold from_value. destruct (aopen L k' (seal L k n _)) as [p|] eqn:E; [|discriminate].
      destruct (open_sealed _ _ _ _ _ E) as [-> ->].
      assert (0 <? ttl = true) as -> by (apply Z.ltb_lt; auto).
      assert (0 <? ttl' = true) as -> by (apply Z.ltb_lt; auto).
      rewrite bar_join. assert (_ * second <? now = true) as -> by (apply Z.ltb_lt; exact He). discriminate.
  Qed.

  (* DEGRADE + the fresh cookie pins: the value issued for the chosen member n is found again at once *)
  Lemma degrade_then_pin c now nonce pool cookie nd n' nxt' :
    get_backend L now c cookie pool = None -> In nd pool -> (forall y, In y pool -> V y) ->
    (forall k ttl, mint_leaf c = Aes k ttl -> 0 < ttl -> second <= ttl) ->
    serve L now nonce c pool cookie (Some nd) = (200, nd, get L now nonce c nd) /\
    exists x, serve L now n' c pool (Some (get L now nonce c nd)) nxt' = (200, x, -1) /\ In x pool /\ ukey L x = ukey L nd.
  Proof.
    intros Hg Hin Hpool Httl. split; [rewrite serve_degrade; auto|].
    rewrite get_mint_leaf. apply pin_serve; auto using mint_leaf_in.
    - exists nd; auto.
    - apply fresh_at_mint; auto.
  Qed.

  (* POOL CHANGES: after any sequence of pool operations, requests and clock ticks, from any state, pinning holds
     iff-ready: it needs only that the key of S is (still, or again) in the pool *)
  Lemma pin_after_history c m t0 n n' S nxt s ops :
    In m (leaves c) -> V S ->
    NoDup (keys L (pool s)) -> (forall y, In y (pool s) -> V y) -> upsert_all V ops ->
    let s' := exec (step L c) s ops in
    has_key L (pool s') (ukey L S) = true -> fresh m t0 (now s') ->
    exists x, serve L (now s') n' c (pool s') (Some (get L t0 n m S)) nxt = (200, x, -1) /\
              In x (pool s') /\ ukey L x = ukey L S.
  Proof.
    intros Hin HS Hnd Hp Hu s' Hk Hf.
    destruct (exec_pool_inv L c V ops s Hu (conj Hnd Hp)) as [A B]. fold s' in A, B.
    apply pin_serve; auto. apply has_key_spec in Hk. unfold keys in Hk. apply in_map_iff in Hk.
    destruct Hk as [M [E F]]. exists M. auto.
  Qed.
End Contracts.

(* ------------------------------------------------------------------------------------------ *)
(* The contracts bundled: one premise instead of seventeen.  V = the server URLs ever put into the pool. *)
Record contracts (L : lib) (V : Z -> Prop) : Prop := {
  c_parse_render : forall u, pkey L (render L u) = Some (ukey L u);
  c_parse_rawc : forall u, pkey L (rawc L u) = Some (ukey L u);
  c_norm_key : forall x y, ukey L x = ukey L y -> norm L x = norm L y;
  c_open_seal : forall k n m, aopen L k (seal L k n m) = Some m;
  c_open_only_sealed : forall k c m, aopen L k c = Some m -> exists n, c = seal L k n m;
  c_seal_key : forall k n m k' n' m', seal L k n m = seal L k' n' m' -> k = k';
  c_bar_join : forall s e, bar L (join L s e) = (s, Some (Some e));
  c_bar_render : forall u, V u -> snd (bar L (render L u)) = None;
  c_hash_not_render : forall s a u, hash L s a <> render L u;
  c_hash_not_rawc : forall s a u, hash L s a <> rawc L u;
  c_hash_not_seal : forall s a k n m, hash L s a <> seal L k n m;
  c_seal_not_render : forall k n m u, seal L k n m <> render L u;
  c_seal_not_rawc : forall k n m u, seal L k n m <> rawc L u;
  c_hash_not_url : forall s a x, V x -> pkey L (hash L s a) <> Some (ukey L x);
  c_seal_not_url : forall k n m x, V x -> pkey L (seal L k n m) <> Some (ukey L x);
  c_join_url : forall u e x, V u -> V x -> pkey L (join L (render L u) e) = Some (ukey L x) -> ukey L x = ukey L u;
  c_no_collision : forall s s' x y, V x -> V y -> hash L s (norm L x) = hash L s' (norm L y) -> ukey L x = ukey L y
}.

Lemma pin_find_c L V : contracts L V -> forall c m t0 n now S pool,
  In m (leaves c) -> V S -> (forall y, In y pool -> V y) ->
  (exists M, In M pool /\ ukey L M = ukey L S) -> fresh m t0 now ->
  exists x, find_url L now c (get L t0 n m S) pool = Found x /\ In x pool /\ ukey L x = ukey L S.
Proof. intros []. eapply pin_find; eassumption. Qed.

Lemma pin_serve_c L V : contracts L V -> forall c m t0 n n' now S pool nxt,
  In m (leaves c) -> V S -> (forall y, In y pool -> V y) ->
  (exists M, In M pool /\ ukey L M = ukey L S) -> fresh m t0 now ->
  exists x, serve L now n' c pool (Some (get L t0 n m S)) nxt = (200, x, -1) /\ In x pool /\ ukey L x = ukey L S.
Proof. intros []. eapply pin_serve; eassumption. Qed.

Lemma pin_serve_the_member_c L V : contracts L V -> forall c m t0 n n' now S pool nxt M,
  In m (leaves c) -> V S -> (forall y, In y pool -> V y) -> NoDup (keys L pool) ->
  In M pool -> ukey L M = ukey L S -> fresh m t0 now ->
  serve L now n' c pool (Some (get L t0 n m S)) nxt = (200, M, -1).
Proof. intros []. eapply pin_serve_the_member; eassumption. Qed.

Lemma aes_expired_c L V : contracts L V -> forall k ttl t0 n now S pool,
  expired ttl t0 now -> find_url L now (Aes k ttl) (get L t0 n (Aes k ttl) S) pool = LookupError.
Proof. intros []. eapply aes_expired; eassumption. Qed.

Lemma expired_chain_c L V : contracts L V -> forall c k ttl t0 n now S pool,
  expired ttl t0 now -> (forall y, In y pool -> V y) ->
  (forall ttl', In (Aes k ttl') (leaves c) -> 0 < ttl') ->
  forall x, find_url L now c (get L t0 n (Aes k ttl) S) pool <> Found x.
Proof. intros []. eapply expired_chain; eassumption. Qed.

Lemma degrade_then_pin_c L V : contracts L V -> forall c now nonce pool cookie nd n' nxt',
  get_backend L now c cookie pool = None -> In nd pool -> (forall y, In y pool -> V y) ->
  (forall k ttl, mint_leaf c = Aes k ttl -> 0 < ttl -> second <= ttl) ->
  serve L now nonce c pool cookie (Some nd) = (200, nd, get L now nonce c nd) /\
  exists x, serve L now n' c pool (Some (get L now nonce c nd)) nxt' = (200, x, -1) /\ In x pool /\ ukey L x = ukey L nd.
Proof. intros []. eapply degrade_then_pin; eassumption. Qed.

Lemma pin_after_history_c L V : contracts L V -> forall c m t0 n n' S nxt s ops,
  In m (leaves c) -> V S ->
  NoDup (keys L (pool s)) -> (forall y, In y (pool s) -> V y) -> upsert_all V ops ->
  let s' := exec (step L c) s ops in
  has_key L (pool s') (ukey L S) = true -> fresh m t0 (now s') ->
  exists x, serve L (now s') n' c (pool s') (Some (get L t0 n m S)) nxt = (200, x, -1) /\
            In x (pool s') /\ ukey L x = ukey L S.
Proof. intros []. eapply pin_after_history; eassumption. Qed.

(* ------------------------------------------------------------------------------------------ *)
(* The contracts are satisfiable: strings are tagged naturals 4*x + tag (0 URL, 1 hash, 2 sealed, 3 url|expiry),
   pairs are Cantor-paired, Z <-> nat by the usual zig-zag. *)
Require Coq.Arith.Cantor.

Module Instance.
  Definition zn (z : Z) : nat := if z <? 0 then Z.to_nat (-2 * z - 1) else Z.to_nat (2 * z).
  Definition nz (n : nat) : Z :=
    let z := Z.of_nat n in if z mod 2 =? 0 then z / 2 else - ((z + 1) / 2).

  Lemma nz_zn z : nz (zn z) = z.
  Proof.
    unfold nz, zn. destruct (z <? 0) eqn:E; [apply Z.ltb_lt in E|apply Z.ltb_ge in E];
      rewrite Z2Nat.id by lia; destruct (_ mod 2 =? 0) eqn:M;
      [apply Z.eqb_eq in M|apply Z.eqb_neq in M|apply Z.eqb_eq in M|apply Z.eqb_neq in M];
      Z.div_mod_to_equations; lia.
  Qed.

  Lemma zn_nz n : zn (nz n) = n.
  Proof.
    unfold nz, zn. pose proof (Nat2Z.is_nonneg n) as Hn. set (z := Z.of_nat n) in *.
    assert (Hz : Z.to_nat z = n) by (unfold z; apply Nat2Z.id).
    destruct (z mod 2 =? 0) eqn:M; [apply Z.eqb_eq in M|apply Z.eqb_neq in M].
    - assert (z / 2 <? 0 = false) as -> by (apply Z.ltb_ge; Z.div_mod_to_equations; lia).
      clearbody z. subst n. f_equal. Z.div_mod_to_equations; lia.
    - assert (- ((z + 1) / 2) <? 0 = true) as -> by (apply Z.ltb_lt; Z.div_mod_to_equations; lia).
      clearbody z. subst n. f_equal. Z.div_mod_to_equations; lia.
  Qed.

  Lemma zn_inj a b : zn a = zn b -> a = b.
  Proof. intros H. rewrite <- (nz_zn a), <- (nz_zn b), H. reflexivity. Qed.

  Definition str (tag x : nat) : Z := Z.of_nat (4 * x + tag).
  Definition dec (s : Z) : option (nat * nat) :=
    if s <? 0 then None else Some (Z.to_nat (s mod 4), Z.to_nat (s / 4)).

  Lemma dec_str tag x : (tag < 4)%nat -> dec (str tag x) = Some (tag, x).
  Proof.
    intros Ht. unfold dec, str. assert (Z.of_nat (4 * x + tag) <? 0 = false) as -> by (apply Z.ltb_ge; lia).
    f_equal. f_equal; apply Nat2Z.inj; rewrite Z2Nat.id; try (Z.div_mod_to_equations; lia).
  Qed.

  Lemma dec_inv s t x : dec s = Some (t, x) -> s = str t x /\ (t < 4)%nat.
  Proof.
    unfold dec, str. destruct (s <? 0) eqn:E; [discriminate|]. apply Z.ltb_ge in E. intros H; inv H.
    split; [|apply Nat2Z.inj_lt; rewrite Z2Nat.id; Z.div_mod_to_equations; lia].
    rewrite Nat2Z.inj_add, Nat2Z.inj_mul, !Z2Nat.id; Z.div_mod_to_equations; lia.
  Qed.

  Lemma str_inj t x t' x' : (t < 4)%nat -> (t' < 4)%nat -> str t x = str t' x' -> t = t' /\ x = x'.
  Proof. unfold str. intros A B H. apply Nat2Z.inj in H. lia. Qed.

  Definition pr (a b : Z) : nat := Cantor.to_nat (zn a, zn b).

  Lemma pr_inj a b a' b' : pr a b = pr a' b' -> a = a' /\ b = b'.
  Proof.
    unfold pr. intros H. apply (f_equal Cantor.of_nat) in H. rewrite !Cantor.cancel_of_to in H. inv H.
    split; apply zn_inj; auto.
  Qed.

  Definition L : lib := {|
    render := fun u => str 0 (zn u);
    rawc := fun u => str 0 (zn u);
    norm := fun u => str 0 (zn u);
    ukey := fun u => u;
    pkey := fun s => match dec s with Some (O, x) => Some (nz x) | _ => None end;
    hash := fun salt a => str 1 (pr salt a);
    seal := fun k _ m => str 2 (pr k m);
    aopen := fun k c =>
      match dec c with
      | Some (2%nat, p) => let '(a, b) := Cantor.of_nat p in if Nat.eqb a (zn k) then Some (nz b) else None
      | _ => None
      end;
    join := fun s e => str 3 (pr s e);
    bar := fun s =>
      match dec s with
      | Some (3%nat, p) => let '(a, b) := Cantor.of_nat p in (nz a, Some (Some (nz b)))
      | _ => (s, None)
      end
  |}.

  Lemma ok : contracts L (fun _ => True).
  Proof.
    constructor; cbn [L render rawc norm ukey pkey hash seal aopen join bar].
    - intros u. rewrite dec_str by lia. rewrite nz_zn. reflexivity.
    - intros u. rewrite dec_str by lia. rewrite nz_zn. reflexivity.
    - intros x y ->. reflexivity.
    - intros k n m. rewrite dec_str by lia. unfold pr. rewrite Cantor.cancel_of_to, Nat.eqb_refl, nz_zn. reflexivity.
    - intros k c m. destruct (dec c) as [[t p]|] eqn:E; [|discriminate].
      destruct t as [|[|[|t]]]; try discriminate.
      destruct (Cantor.of_nat p) as [a b] eqn:Ep. destruct (Nat.eqb a (zn k)) eqn:Ea; [|discriminate].
      intros H; inv H. apply Nat.eqb_eq in Ea. subst a. exists 0. destruct (dec_inv _ _ _ E) as [-> _].
      f_equal. unfold pr. rewrite zn_nz, <- Ep, Cantor.cancel_to_of. reflexivity.
    - intros k n m k' n' m' H. apply str_inj in H; try lia. destruct H as [_ H]. apply pr_inj in H. tauto.
    - intros s e. rewrite dec_str by lia. unfold pr. rewrite Cantor.cancel_of_to, !nz_zn. reflexivity.
    - intros u _. rewrite dec_str by lia. reflexivity.
    - intros s a u H. apply str_inj in H; lia.
    - intros s a u H. apply str_inj in H; lia.
    - intros s a k n m H. apply str_inj in H; lia.
    - intros k n m u H. apply str_inj in H; lia.
    - intros k n m u H. apply str_inj in H; lia.
    - intros s a x _. rewrite dec_str by lia. discriminate.
    - intros k n m x _. rewrite dec_str by lia. discriminate.
    - intros u e x _ _. rewrite dec_str by lia. discriminate.
    - intros s s' x y _ _ H. apply str_inj in H; try lia. destruct H as [_ H]. apply pr_inj in H. destruct H as [_ H].
      apply str_inj in H; try lia. destruct H as [_ H]. apply zn_inj. exact H.
  Qed.
End Instance.

Lemma contracts_consistent : exists L V, contracts L V /\ V 0 /\ V 1 /\ ukey L 0 <> ukey L 1.
Proof. exists Instance.L, (fun _ => True). split; [exact Instance.ok|]. cbn. repeat split; auto. discriminate. Qed.
