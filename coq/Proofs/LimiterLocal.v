(* The rate limiter, seen from one source: a request reads and writes only its own entry
   (while there is room); eviction removes one entry of minimal expiry and touches nothing else.
   Consequences: non-interference between sources (C14), "rejections are free" and "the advertised
   wait suffices" through the TTL map (C13). *)
From Oxy Require Import Base.Prelude Model.Bucket Model.Limiter Proofs.BucketProofs Proofs.SetProofs Proofs.LimiterProofs.
Open Scope Z_scope.

(* ---------- the local view of a request ---------- *)
Definition found_of (tnow : Z) (oe : option entry) : option bset :=
  match oe with Some e => if e_exp e <=? now_sec tnow then None else Some (e_val e) | None => None end.

Definition local_set (c : cfg) (tnow : Z) (oe : option entry) : bset :=
  match found_of tnow oe with Some bs => update_set (rates c) bs | None => new_set tnow (rates c) end.

Definition local_out (c : cfg) (tnow : Z) (oe : option entry) (n : Z) : set_outcome :=
  fst (consume_set tnow n (local_set c tnow oe)).

Definition local_entry (c : cfg) (tnow src : Z) (oe : option entry) (n : Z) : entry :=
  {| e_key := src; e_exp := now_sec tnow + ttl_of (local_set c tnow oe);
     e_val := snd (consume_set tnow n (local_set c tnow oe)) |}.

Lemma length_remove_le m k : (length (remove m k) <= length m)%nat.
Proof. induction m as [|e m IH]; cbn; [lia|]. destruct (e_key e =? k); cbn; lia. Qed.

Lemma remove_absent m k : lookup m k = None -> remove m k = m.
Proof. induction m as [|e m IH]; cbn; [reflexivity|]. destruct (Z.eqb_spec (e_key e) k); [discriminate|]. intros H. f_equal. auto. Qed.

Lemma keys_app_snoc m e k : In k (keys (m ++ [e])) -> k = e_key e \/ In k (keys m).
Proof. unfold keys. rewrite map_app. intros H. apply in_app_or in H. cbn in H. intuition. Qed.

(* While there is room for the source, a request depends on and changes only the source's own entry. *)
Lemma consume_rates_local c s src n hint :
  NoDup (keys (tmap s)) ->
  Z.of_nat (length (remove (tmap s) src)) < capacity c ->
  let r := consume_rates c s src n hint in
  let s' := fst (fst r) in
  snd (fst r) = local_out c (now s) (lookup (tmap s) src) n /\
  lookup (tmap s') src = Some (local_entry c (now s) src (lookup (tmap s) src) n) /\
  (forall k, k <> src -> lookup (tmap s') k = lookup (tmap s) k) /\
  snd r = -1 /\ now s' = now s /\
  NoDup (keys (tmap s')) /\ (forall k, In k (keys (tmap s')) -> k = src \/ In k (keys (tmap s))).
Proof. intros Hnd Hroom. cbn zeta. unfold consume_rates, ttl_get, local_out, local_entry, local_set, found_of.
  destruct (lookup (tmap s) src) as [e|] eqn:El.
  - destruct (lookup_some_key _ _ _ El) as (Hk & Hin).
    assert (Hink : In src (keys (tmap s))) by (rewrite <- Hk; apply in_map; assumption).
    destruct (Z.leb_spec (e_exp e) (now_sec (now s))).
    + (* expired: removed, then re-inserted at the end *)
      destruct (consume_set (now s) n (new_set (now s) (rates c))) as [o bs'] eqn:Ec.
      unfold ttl_set. rewrite (lookup_remove_same _ _ Hnd).
      destruct (Z.leb_spec (capacity c) (Z.of_nat (length (remove (tmap s) src)))); [lia|].
      cbn [fst snd now tmap]. split; [reflexivity|].
      split. { apply lookup_app_new; [apply lookup_remove_same; assumption|reflexivity]. }
      split. { intros k Hne. rewrite lookup_app_other by (cbn; congruence). apply lookup_remove_other. congruence. }
      split; [reflexivity|]. split; [reflexivity|]. split.
      * unfold keys. rewrite map_app. cbn. apply NoDup_app_snoc; [apply NoDup_remove; assumption|].
        apply lookup_none, lookup_remove_same; assumption.
      * intros k Hk'. apply keys_app_snoc in Hk'. cbn in Hk'. destruct Hk' as [->|Hk']; [left; reflexivity|].
        right. eapply keys_remove_incl; eassumption.
    + (* live: replaced in place *)
      destruct (consume_set (now s) n (update_set (rates c) (e_val e))) as [o bs'] eqn:Ec.
      unfold ttl_set. rewrite El. cbn [fst snd now tmap].
      set (e' := {| e_key := src; e_exp := now_sec (now s) + ttl_of (update_set (rates c) (e_val e)); e_val := bs' |}).
      assert (Hke : In (e_key e') (keys (tmap s))) by (cbn; assumption).
      split; [reflexivity|].
      split. { change src with (e_key e') at 1. apply lookup_replace_same; assumption. }
      split. { intros k Hne. apply lookup_replace_other. cbn; congruence. }
      split; [reflexivity|]. split; [reflexivity|].
      rewrite (keys_replace_eq _ e' Hke). split; [assumption|]. intros; right; assumption.
  - destruct (consume_set (now s) n (new_set (now s) (rates c))) as [o bs'] eqn:Ec.
    unfold ttl_set. rewrite El. rewrite (remove_absent _ _ El) in Hroom.
    destruct (Z.leb_spec (capacity c) (Z.of_nat (length (tmap s)))); [lia|].
    cbn [fst snd now tmap]. split; [reflexivity|].
    split. { apply lookup_app_new; [assumption|reflexivity]. }
    split. { intros k Hne. apply lookup_app_other. cbn; congruence. }
    split; [reflexivity|]. split; [reflexivity|]. split.
    + unfold keys. rewrite map_app. cbn. apply NoDup_app_snoc; [assumption|apply lookup_none; assumption].
    + intros k Hk'. apply keys_app_snoc in Hk'. cbn in Hk'. tauto.
Qed.

(* room follows from the capacity hypothesis by counting *)
Lemma room c U m src : NoDup U -> Z.of_nat (length U) <= capacity c -> NoDup (keys m) ->
  (forall k, In k (keys m) -> In k U) -> In src U -> Z.of_nat (length (remove m src)) < capacity c.
Proof. intros HU Hcap Hnd Hsub Hsrc.
  assert (NoDup (src :: keys (remove m src))).
  { constructor; [apply lookup_none, lookup_remove_same; assumption|apply NoDup_remove; assumption]. }
  assert (incl (src :: keys (remove m src)) U).
  { intros x [<-|Hx]; [assumption|]. apply Hsub. eapply keys_remove_incl; eassumption. }
  pose proof (NoDup_incl_length H H0) as L. cbn in L. unfold keys in L. rewrite map_length in L. lia. Qed.

(* ---------- non-interference of the rate limiter ---------- *)
(* histories made of requests and clock advances *)
Fixpoint plain (ops : list op) : Prop :=
  match ops with [] => True | WaitAdvertised :: _ => False | _ :: r => plain r end.

(* the history a source would produce alone: its own requests and every clock advance *)
Fixpoint alone (src : Z) (ops : list op) : list op :=
  match ops with
  | [] => []
  | Req s n h :: r => if s =? src then Req s n h :: alone src r else alone src r
  | o :: r => o :: alone src r
  end.

Definition Rel2 (U : list Z) (src : Z) (s s' : st) : Prop :=
  now s = now s' /\ lookup (tmap s) src = lookup (tmap s') src /\
  NoDup (keys (tmap s)) /\ NoDup (keys (tmap s')) /\
  (forall k, In k (keys (tmap s)) -> In k U) /\ (forall k, In k (keys (tmap s')) -> In k U).

Theorem rate_noninterference c U src : forall ops s s',
  Rel2 U src s s' -> fits c U ops -> plain ops ->
  filter (of_src src) (events c s ops) = events c s' (alone src ops).
Proof. induction ops as [|o ops IH]; intros s s' HR (HU & Hcap & Hsrc) Hpl; [reflexivity|].
  destruct HR as (Hnow & Hlk & Hnd & Hnd' & Hsub & Hsub').
  destruct o as [sr n h|d|]; [| |destruct Hpl].
  - cbn [events alone]. rewrite filter_src_cons. cbn [ev_src].
    assert (HsrU : In sr U) by (apply Hsrc; left; reflexivity).
    pose proof (consume_rates_local c s sr n h Hnd (room c U _ sr HU Hcap Hnd Hsub HsrU)) as L. cbn zeta in L.
    destruct L as (Lo & Ll & Lk & _ & Ln & Lnd & Lsub).
    assert (Hfits' : fits c U ops) by (repeat split; try assumption; intros x Hx; apply Hsrc; right; assumption).
    destruct (Z.eqb_spec sr src) as [->|Hne].
    + cbn [events].
      pose proof (consume_rates_local c s' src n h Hnd' (room c U _ src HU Hcap Hnd' Hsub' HsrU)) as L'. cbn zeta in L'.
      destruct L' as (Lo' & Ll' & Lk' & _ & Ln' & Lnd' & Lsub').
      rewrite Lo, Lo', Hnow, Hlk. f_equal. rewrite !step_req_state. apply IH; [|assumption|exact Hpl].
      repeat split; try assumption.
      * congruence.
      * rewrite Ll, Ll', Hnow, Hlk. reflexivity.
      * intros k Hk. destruct (Lsub k Hk) as [->|Hk']; auto.
      * intros k Hk. destruct (Lsub' k Hk) as [->|Hk']; auto.
    + rewrite step_req_state. apply IH; [|assumption|exact Hpl].
      repeat split; try assumption.
      * congruence.
      * rewrite Lk by congruence. assumption.
      * intros k Hk. destruct (Lsub k Hk) as [->|Hk']; auto.
  - cbn [events alone step fst]. apply IH; [|repeat split; assumption|exact Hpl].
    repeat split; cbn [now tmap]; try assumption. congruence.
Qed.

(* ---------- eviction: only the entry nearest to expiry goes, nothing else changes ---------- *)
Lemma min_exp_le m e : In e m -> min_exp m <= e_exp e.
Proof. destruct m as [|x m]; [intros []|]. unfold min_exp.
  assert (G : forall l a, fold_left (fun a x => Z.min a (e_exp x)) l a <= a /\
              forall y, In y l -> fold_left (fun a x => Z.min a (e_exp x)) l a <= e_exp y).
  { induction l as [|z l IH]; intros a; cbn; [split; [lia|intros y []]|].
    destruct (IH (Z.min a (e_exp z))) as (A & B). split; [lia|]. intros y [<-|Hy]; [lia|auto]. }
  destruct (G m (e_exp x)) as (A & B). intros [<-|Hin]; auto. Qed.

Lemma first_min_spec m mn k : first_min m mn = Some k -> exists e, In e m /\ e_key e = k /\ e_exp e = mn.
Proof. induction m as [|x m IH]; cbn; [discriminate|]. destruct (Z.eqb_spec (e_exp x) mn); intros H.
  - inv H. eauto.
  - destruct (IH H) as (e & A & B & C). eauto. Qed.

Lemma victim_spec m hint k : victim m hint = Some k ->
  exists e, In e m /\ e_key e = k /\ forall e', In e' m -> e_exp e <= e_exp e'.
Proof. unfold victim. destruct m as [|x m]; [discriminate|].
  set (M := x :: m). intros H.
  assert (G : forall k0, first_min M (min_exp M) = Some k0 -> exists e, In e M /\ e_key e = k0 /\ forall e', In e' M -> e_exp e <= e_exp e').
  { intros k0 Hf. destruct (first_min_spec _ _ _ Hf) as (e & A & B & C). exists e. repeat split; auto.
    intros e' He'. rewrite C. apply min_exp_le; assumption. }
  destruct (lookup M hint) as [e|] eqn:El; [|auto].
  destruct (Z.eqb_spec (e_exp e) (min_exp M)) as [E|_]; [|auto].
  inv H. destruct (lookup_some_key _ _ _ El) as (Hk & Hin). exists e. repeat split; auto.
  intros e' He'. rewrite E. apply min_exp_le; assumption. Qed.

Theorem evict_min cap tnow m k v ttl hint ev :
  snd (ttl_set cap tnow m k v ttl hint) = ev -> ev <> -1 ->
  cap <= Z.of_nat (length m) /\ lookup m k = None /\
  exists e, In e m /\ e_key e = ev /\ forall e', In e' m -> e_exp e <= e_exp e'.
Proof. unfold ttl_set. destruct (lookup m k) eqn:El; cbn [snd]; [intros <-; congruence|].
  destruct (Z.leb_spec cap (Z.of_nat (length m))); cbn [snd]; [|intros <-; congruence].
  destruct (victim m hint) as [vk|] eqn:Ev; cbn [snd]; [|intros <-; congruence].
  intros <- _. split; [assumption|]. split; [reflexivity|]. eapply victim_spec; eassumption. Qed.

Theorem evict_frame cap tnow m k v ttl hint :
  NoDup (keys m) ->
  let m' := fst (ttl_set cap tnow m k v ttl hint) in
  let ev := snd (ttl_set cap tnow m k v ttl hint) in
  (forall k', k' <> k -> k' <> ev -> lookup m' k' = lookup m k') /\
  (ev <> -1 -> ev <> k -> lookup m' ev = None) /\
  lookup m' k = Some {| e_key := k; e_exp := now_sec tnow + ttl; e_val := v |}.
Proof. intros Hnd. cbn zeta. unfold ttl_set.
  set (e := {| e_key := k; e_exp := now_sec tnow + ttl; e_val := v |}).
  destruct (lookup m k) eqn:El; cbn [fst snd].
  - destruct (lookup_some_key _ _ _ El) as (Hk & Hin).
    assert (Hke : In (e_key e) (keys m)) by (cbn; rewrite <- Hk; apply in_map; assumption).
    split; [intros k' H1 _; apply lookup_replace_other; cbn; congruence|]. split; [congruence|].
    change k with (e_key e) at 1. apply lookup_replace_same; assumption.
  - destruct (Z.leb_spec cap (Z.of_nat (length m))); cbn [fst snd].
    + destruct (victim m hint) as [vk|] eqn:Ev; cbn [fst snd].
      * split. { intros k' H1 H2. rewrite lookup_app_other by (cbn; congruence). apply lookup_remove_other. congruence. }
        split. { intros _ Hne. rewrite lookup_app_other by (cbn; congruence). apply lookup_remove_same; assumption. }
        apply lookup_app_new; [|reflexivity].
        destruct (Z.eqb_spec vk k) as [->|Hne]; [apply lookup_remove_same; assumption|].
        rewrite lookup_remove_other by congruence. assumption.
      * split; [intros k' H1 _; apply lookup_app_other; cbn; congruence|]. split; [congruence|].
        apply lookup_app_new; [assumption|reflexivity].
    + split; [intros k' H1 _; apply lookup_app_other; cbn; congruence|]. split; [congruence|].
      apply lookup_app_new; [assumption|reflexivity]. Qed.
