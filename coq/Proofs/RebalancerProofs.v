(* Invariants of the rebalancer model (Model/Rebalancer.v): shadow records and inner pool stay in sync,
   weights stay in range, reset restores, timer discipline, refinement to the key -> configured weight map. *)
From Oxy Require Import Base.Prelude Model.Rebalancer.
Open Scope Z_scope.

Lemma NoDup_app_one (l : list Z) k : NoDup l -> ~ In k l -> NoDup (l ++ [k]).
Proof. induction l as [|x l IH]; cbn; intros Hnd Hk; [constructor; [tauto|constructor]|].
  inv Hnd. constructor; [|apply IH; tauto]. intros Hin. apply in_app_or in Hin. cbn in Hin. intuition congruence. Qed.

(* ---------------------------------------------------------------------------------------------
   inner pool: association-list facts
   --------------------------------------------------------------------------------------------- *)
Definition keys (p : pool_t) : list Z := map fst p.

Lemma rr_weight_none p k : rr_weight p k = None <-> ~ In k (keys p).
Proof. induction p as [|[k' w] p IH]; cbn; [tauto|].
  destruct (Z.eqb_spec k k'); [subst; split; [discriminate|tauto]|]. rewrite IH. intuition congruence. Qed.

Lemma rr_weight_in p k : In k (keys p) -> exists w, rr_weight p k = Some w.
Proof. intros H. destruct (rr_weight p k) eqn:E; [eauto|]. apply rr_weight_none in E. tauto. Qed.

Lemma rr_weight_some_in p k w : rr_weight p k = Some w -> In k (keys p).
Proof. intros H. destruct (in_dec Z.eq_dec k (keys p)) as [i|n]; [exact i|].
  apply (proj2 (rr_weight_none p k)) in n. congruence. Qed.

Lemma rr_set_keys p k w : keys (rr_set p k w) = keys p.
Proof. unfold keys. induction p as [|[k' w'] p IH]; cbn; [reflexivity|]. destruct (k =? k'); cbn; congruence. Qed.

Lemma rr_weight_set p k w k' :
  rr_weight (rr_set p k w) k' =
  if k' =? k then match rr_weight p k with Some _ => Some w | None => None end else rr_weight p k'.
Proof. induction p as [|[k0 w0] p IH]; cbn.
  - destruct (k' =? k); reflexivity.
  - destruct (Z.eqb_spec k k0) as [->|Hne]; cbn.
    + destruct (Z.eqb_spec k' k0); reflexivity.
    + destruct (Z.eqb_spec k' k0) as [->|Hne'].
      * destruct (Z.eqb_spec k0 k); [congruence|reflexivity].
      * apply IH. Qed.

Lemma rr_weight_app p k w k' :
  rr_weight (p ++ [(k, w)]) k' =
  match rr_weight p k' with Some x => Some x | None => if k' =? k then Some w else None end.
Proof. induction p as [|[k0 w0] p IH]; cbn; [reflexivity|]. destruct (k' =? k0); [reflexivity|apply IH]. Qed.

Lemma rr_weight_remove_first p k k' : NoDup (keys p) ->
  rr_weight (rr_remove_first p k) k' = if k' =? k then None else rr_weight p k'.
Proof. induction p as [|[k0 w0] p IH]; cbn; intros Hnd.
  - destruct (k' =? k); reflexivity.
  - inv Hnd. destruct (Z.eqb_spec k k0) as [->|Hne]; cbn.
    + destruct (Z.eqb_spec k' k0) as [E|Hne']; [|reflexivity]. rewrite E. apply rr_weight_none. assumption.
    + destruct (Z.eqb_spec k' k0) as [E|Hne'].
      * destruct (Z.eqb_spec k' k); [congruence|reflexivity].
      * apply IH. assumption. Qed.

Lemma rr_set_app pre k w0 q c : ~ In k (keys pre) ->
  rr_set (pre ++ (k, w0) :: q) k c = pre ++ (k, c) :: q.
Proof. induction pre as [|[k' w'] pre IH]; cbn; intros H.
  - rewrite Z.eqb_refl. reflexivity.
  - destruct (Z.eqb_spec k k'); [subst; tauto|]. rewrite IH; tauto. Qed.

Lemma rr_weight_app_in pre k w0 q : ~ In k (keys pre) -> rr_weight (pre ++ (k, w0) :: q) k = Some w0.
Proof. induction pre as [|[k' w'] pre IH]; cbn; intros H.
  - rewrite Z.eqb_refl. reflexivity.
  - destruct (Z.eqb_spec k k'); [subst; tauto|]. apply IH. tauto. Qed.

(* ---------------------------------------------------------------------------------------------
   shadow list facts
   --------------------------------------------------------------------------------------------- *)
Definition kc (r : srv) : Z * Z := (skey r, cur r).   (* what the inner pool holds for a record *)
Definition ko (r : srv) : Z * Z := (skey r, orig r).  (* what the user configured *)

Lemma keys_map_kc sh : keys (map kc sh) = map skey sh.
Proof. unfold keys. rewrite map_map. reflexivity. Qed.
Lemma keys_map_ko sh : keys (map ko sh) = map skey sh.
Proof. unfold keys. rewrite map_map. reflexivity. Qed.

Lemma find_srv_weight sh k : rr_weight (map kc sh) k = option_map cur (find_srv sh k).
Proof. induction sh as [|r sh IH]; cbn; [reflexivity|]. destruct (k =? skey r); [reflexivity|apply IH]. Qed.

Lemma find_srv_orig sh k : rr_weight (map ko sh) k = option_map orig (find_srv sh k).
Proof. induction sh as [|r sh IH]; cbn; [reflexivity|]. destruct (k =? skey r); [reflexivity|apply IH]. Qed.

Lemma find_srv_in sh k r : find_srv sh k = Some r -> In r sh /\ skey r = k.
Proof. induction sh as [|r0 sh IH]; cbn; [discriminate|].
  destruct (Z.eqb_spec k (skey r0)); intros H; [inv H; auto|]. apply IH in H. tauto. Qed.

Lemma find_srv_none sh k : find_srv sh k = None <-> ~ In k (map skey sh).
Proof. rewrite <- keys_map_kc, <- rr_weight_none, find_srv_weight. destruct (find_srv sh k); cbn; split; congruence. Qed.

Lemma ko_set_orig_first sh k o : map ko (set_orig_first sh k o) = rr_set (map ko sh) k o.
Proof. induction sh as [|r sh IH]; cbn; [reflexivity|]. destruct (k =? skey r); cbn; [reflexivity|]. rewrite IH. reflexivity. Qed.

Lemma skey_set_orig_first sh k o : map skey (set_orig_first sh k o) = map skey sh.
Proof. induction sh as [|r sh IH]; cbn; [reflexivity|]. destruct (k =? skey r); cbn; congruence. Qed.

Lemma kc_set_orig_first sh k o : map kc (set_orig_first sh k o) = map kc sh.
Proof. induction sh as [|r sh IH]; cbn; [reflexivity|]. destruct (k =? skey r); cbn; [reflexivity|]. rewrite IH. reflexivity. Qed.

Lemma in_set_orig_first sh k o r : In r (set_orig_first sh k o) -> In r sh \/ (exists r0, In r0 sh /\ r = set_orig r0 o).
Proof. induction sh as [|r0 sh IH]; cbn; [tauto|]. destruct (k =? skey r0); cbn.
  - intros [H|H]; [right; exists r0; auto|auto].
  - intros [H|H]; [auto|]. apply IH in H. destruct H as [H|(x & H1 & H2)]; [auto|right; exists x; auto]. Qed.

Lemma ko_remove_first sh k : map ko (remove_first sh k) = rr_remove_first (map ko sh) k.
Proof. induction sh as [|r sh IH]; cbn; [reflexivity|]. destruct (k =? skey r); cbn; [reflexivity|]. rewrite IH. reflexivity. Qed.

Lemma kc_remove_first sh k : map kc (remove_first sh k) = rr_remove_first (map kc sh) k.
Proof. induction sh as [|r sh IH]; cbn; [reflexivity|]. destruct (k =? skey r); cbn; [reflexivity|]. rewrite IH. reflexivity. Qed.

Lemma in_remove_first sh k r : In r (remove_first sh k) -> In r sh.
Proof. induction sh as [|r0 sh IH]; cbn; [tauto|]. destruct (k =? skey r0); cbn; [auto|]. intros [H|H]; auto. Qed.

Lemma nodup_remove_first sh k : NoDup (map skey sh) -> NoDup (map skey (remove_first sh k)).
Proof. induction sh as [|r0 sh IH]; cbn; intros H; [constructor|]. inv H. destruct (k =? skey r0); cbn; [assumption|].
  constructor; [|auto]. intros Hin. apply H2. apply in_map_iff in Hin. destruct Hin as (x & Hx & Hin).
  apply in_map_iff. exists x. split; [assumption|]. eapply in_remove_first; eassumption. Qed.

Lemma length_remove_first sh k r : find_srv sh k = Some r -> S (length (remove_first sh k)) = length sh.
Proof. induction sh as [|r0 sh IH]; cbn; [discriminate|]. destruct (k =? skey r0); cbn; [reflexivity|]. intros H. rewrite IH; auto. Qed.

(* ---------------------------------------------------------------------------------------------
   applyWeights / reset loop: on a pool with the same keys it installs exactly the records' weights
   --------------------------------------------------------------------------------------------- *)
Lemma apply_pool_pre sh : forall pre q,
  map fst q = map skey sh -> NoDup (map skey sh) ->
  (forall r, In r sh -> ~ In (skey r) (keys pre)) -> Forall (fun r => 0 <= cur r) sh ->
  apply_pool (pre ++ q) sh = pre ++ map kc sh.
Proof. induction sh as [|r sh IH]; intros pre q Hk Hnd Hpre Hc.
  - destruct q; [reflexivity|discriminate].
  - destruct q as [|[k w0] q]; [discriminate|]. cbn in Hk. injection Hk as Hk1 Hk2. subst k.
    apply NoDup_cons_iff in Hnd. destruct Hnd as [Hni Hnd]. inversion Hc as [|? ? Hc0 Hc']; subst.
    cbn [apply_pool]. unfold rr_upsert. rewrite rr_weight_app_in by (apply Hpre; left; reflexivity).
    destruct (Z.ltb_spec (cur r) 0); [lia|]. rewrite rr_set_app by (apply Hpre; left; reflexivity).
    replace (pre ++ (skey r, cur r) :: q) with ((pre ++ [kc r]) ++ q) by (rewrite <- app_assoc; reflexivity).
    rewrite IH; try assumption.
    + rewrite <- app_assoc. reflexivity.
    + intros r' Hr' Hin. unfold keys in Hin. rewrite map_app in Hin. apply in_app_or in Hin. destruct Hin as [Hin|Hin].
      * eapply Hpre; [right; eassumption|exact Hin].
      * cbn in Hin. destruct Hin as [Hin|[]]. apply Hni. rewrite Hin. apply in_map. assumption. Qed.

Lemma apply_pool_sync p sh :
  keys p = map skey sh -> NoDup (map skey sh) -> Forall (fun r => 0 <= cur r) sh -> apply_pool p sh = map kc sh.
Proof. intros. apply (apply_pool_pre sh [] p); auto. Qed.

(* ---------------------------------------------------------------------------------------------
   gcd loop, weightsGcd, normalizeWeights
   --------------------------------------------------------------------------------------------- *)
Lemma gcd_loop_spec fuel : forall a b, 0 <= a -> 0 <= b -> (Z.to_nat b < fuel)%nat -> gcd_loop fuel a b = Z.gcd a b.
Proof. induction fuel as [|f IH]; intros a b Ha Hb Hf; [lia|]. cbn [gcd_loop].
  destruct (Z.eqb_spec b 0) as [->|Hne].
  - rewrite Z.gcd_0_r. lia.
  - rewrite Z.rem_mod_nonneg by lia. pose proof (Z.mod_pos_bound a b ltac:(lia)).
    rewrite IH by lia. rewrite Z.gcd_comm, Z.gcd_mod by lia. apply Z.gcd_comm. Qed.

Lemma go_gcd_spec a b : 0 <= a -> 0 <= b -> go_gcd a b = Z.gcd a b.
Proof. intros. apply gcd_loop_spec; lia. Qed.

Definition gstep (d : Z) (r : srv) : Z := if d =? -1 then cur r else go_gcd d (cur r).

Lemma fold_gcd sh : forall d, 0 <= d -> Forall (fun r => 0 <= cur r) sh ->
  let g := fold_left gstep sh d in 0 <= g /\ (g | d) /\ Forall (fun r => (g | cur r)) sh.
Proof. induction sh as [|r sh IH]; intros d Hd Hc; cbn.
  - repeat split; [lia|apply Z.divide_refl|constructor].
  - inv Hc. assert (E : gstep d r = Z.gcd d (cur r)).
    { unfold gstep. destruct (Z.eqb_spec d (-1)); [lia|]. apply go_gcd_spec; lia. }
    rewrite E.
    destruct (IH (Z.gcd d (cur r)) (Z.gcd_nonneg _ _) H2) as (A & B & C).
    repeat split; [exact A| |constructor; [|exact C]].
    + eapply Z.divide_trans; [exact B|apply Z.gcd_divide_l].
    + eapply Z.divide_trans; [exact B|apply Z.gcd_divide_r]. Qed.

Lemma weights_gcd_spec sh : Forall (fun r => 0 <= cur r) sh ->
  sh = [] \/ (0 <= weights_gcd sh /\ Forall (fun r => (weights_gcd sh | cur r)) sh).
Proof. intros Hc. destruct sh as [|r sh]; [left; reflexivity|right]. inv Hc.
  unfold weights_gcd. change (fold_left _ (r :: sh) (-1)) with (fold_left gstep sh (cur r)).
  destruct (fold_gcd sh (cur r) H1 H2) as (A & B & C). split; [exact A|]. constructor; assumption. Qed.

Lemma set_cur_id r : set_cur r (cur r) = r.
Proof. destruct r; reflexivity. Qed.

(* normalizeWeights divides every weight by one common divisor g >= 1 *)
Lemma normalize_spec sh : Forall (fun r => 0 <= cur r) sh ->
  exists g, 1 <= g /\ Forall (fun r => (g | cur r)) sh /\ normalize sh = map (fun r => set_cur r (cur r / g)) sh.
Proof. intros Hc. unfold normalize. destruct (Z.leb_spec (weights_gcd sh) 1) as [Hle|Hgt].
  - exists 1. split; [lia|]. split; [apply Forall_forall; intros; apply Z.divide_1_l|].
    symmetry. erewrite map_ext; [apply map_id|]. intros r. cbn. rewrite Z.div_1_r. apply set_cur_id.
  - destruct (weights_gcd_spec sh Hc) as [->|[A B]]; [unfold weights_gcd in Hgt; cbn in Hgt; lia|].
    exists (weights_gcd sh). split; [lia|]. split; [exact B|].
    apply map_ext_in. intros r Hr. rewrite Forall_forall in Hc. rewrite Z.quot_div_nonneg by (try apply Hc; auto; lia). reflexivity. Qed.

(* ---------------------------------------------------------------------------------------------
   the invariant
   --------------------------------------------------------------------------------------------- *)
(* a record's weights are in range: never negative, zero exactly with a zero configured weight, and capped *)
Definition wfr (r : srv) : Prop :=
  0 <= orig r /\ (orig r = 0 -> cur r = 0) /\ (1 <= orig r -> 1 <= cur r) /\ cur r <= Z.max FSMMaxWeight (orig r).

Lemma wfr_cur_nonneg r : wfr r -> 0 <= cur r.
Proof. unfold wfr. lia. Qed.

Lemma wfr_all_nonneg sh : Forall wfr sh -> Forall (fun r => 0 <= cur r) sh.
Proof. apply Forall_impl. exact wfr_cur_nonneg. Qed.

Record Inv (s : st) : Prop := {
  inv_pool : pool s = map kc (shadow s);
  inv_nodup : NoDup (map skey (shadow s));
  inv_wfr : Forall wfr (shadow s);
  inv_small : (length (shadow s) < 2)%nat -> Forall (fun r => cur r = orig r) (shadow s) }.

Lemma Inv_init : Inv init.
Proof. constructor; cbn; [reflexivity|constructor|constructor|constructor]. Qed.

(* what upsert/remove hand to reset(): same keys on both sides, no duplicates, sane configured weights *)
Definition Pre (p : pool_t) (sh : list srv) : Prop :=
  keys p = map skey sh /\ NoDup (map skey sh) /\ Forall (fun r => 0 <= orig r) sh.

Definition restored (s : st) : Prop :=
  Forall (fun r => cur r = orig r) (shadow s) /\ pool s = map ko (shadow s) /\ timer s = now s - second.

Lemma reset_spec p sh t n : Pre p sh ->
  let s' := reset {| pool := p; shadow := sh; timer := t; now := n |} in
  Inv s' /\ restored s' /\ map ko (shadow s') = map ko sh /\ now s' = n.
Proof. intros (Hk & Hnd & Ho). cbn. unfold reset. cbn [pool shadow timer now].
  set (sh' := map (fun r => set_cur r (orig r)) sh).
  assert (Hk' : map skey sh' = map skey sh) by (unfold sh'; rewrite map_map; reflexivity).
  assert (Hc : Forall (fun r => cur r = orig r) sh').
  { unfold sh'. apply Forall_forall. intros r Hr. apply in_map_iff in Hr. destruct Hr as (x & <- & _). reflexivity. }
  assert (Ho' : Forall (fun r => 0 <= orig r) sh').
  { unfold sh'. apply Forall_forall. intros r Hr. apply in_map_iff in Hr. destruct Hr as (x & <- & Hx).
    rewrite Forall_forall in Ho. cbn. auto. }
  assert (Hw : Forall wfr sh').
  { rewrite Forall_forall in *. intros r Hr. specialize (Hc r Hr). specialize (Ho' r Hr). unfold wfr. lia. }
  assert (Hp : apply_pool p sh' = map kc sh').
  { apply apply_pool_sync; [congruence|congruence|apply wfr_all_nonneg; assumption]. }
  assert (Hko : map ko sh' = map ko sh) by (unfold sh'; rewrite map_map; reflexivity).
  split; [|split; [|split]]; cbn.
  - constructor; cbn; [exact Hp|congruence|exact Hw|intros _; exact Hc].
  - split; [exact Hc|]. cbn. split; [|reflexivity]. rewrite Hp. apply map_ext_in. intros r Hr.
    rewrite Forall_forall in Hc. unfold kc, ko. rewrite (Hc r Hr). reflexivity.
  - exact Hko.
  - reflexivity. Qed.

(* ---------- Upsert ---------- *)
(* the three ways an upsert can succeed, with the configured weight the shadow record ends up with *)
Lemma upsert_cases s k w s' : Inv s -> upsert s k w = Some s' ->
  exists p sh cw, s' = reset {| pool := p; shadow := sh; timer := timer s; now := now s |} /\ Pre p sh /\ 0 <= cw /\
    ((find_srv (shadow s) k = None /\ map ko sh = map ko (shadow s) ++ [(k, cw)] /\
      cw = match w with Some x => if x =? 0 then defaultWeight else x | None => defaultWeight end)
     \/ (exists r, find_srv (shadow s) k = Some r /\ map ko sh = rr_set (map ko (shadow s)) k cw /\
         cw = match w with Some x => x | None => cur r end)) /\
    match w with Some x => 0 <= x | None => True end.
Proof. intros [Hp Hnd Hw Hs] H. unfold upsert in H.
  destruct (rr_upsert (pool s) k w) as [p|] eqn:E; [|discriminate]. inv H. unfold rr_upsert in E.
  rewrite Hp in E. rewrite find_srv_weight in E. unfold upsert_shadow.
  destruct (find_srv (shadow s) k) as [r|] eqn:F; cbn [option_map] in E.
  - (* existing record *)
    destruct (find_srv_in _ _ _ F) as [Hin Hkey].
    assert (Hr : wfr r) by (rewrite Forall_forall in Hw; auto).
    assert (Hkin : In k (keys (map kc (shadow s)))) by (rewrite keys_map_kc; rewrite <- Hkey; apply in_map; assumption).
    destruct w as [x|].
    + destruct (Z.ltb_spec x 0); [discriminate|]. injection E as E; subst p.
      rewrite rr_weight_set, Z.eqb_refl, find_srv_weight, F. cbn [option_map].
      exists (rr_set (map kc (shadow s)) k x), (set_orig_first (shadow s) k x), x.
      split; [reflexivity|]. split; [|split; [assumption|split; [|assumption]]].
      * split; [rewrite rr_set_keys, keys_map_kc, skey_set_orig_first; reflexivity|].
        split; [rewrite skey_set_orig_first; assumption|].
        apply Forall_forall. intros r' Hr'. apply in_set_orig_first in Hr'. rewrite Forall_forall in Hw.
        destruct Hr' as [Hr'|(r0 & _ & ->)]; [apply (Hw r' Hr')|cbn; assumption].
      * right. exists r. split; [reflexivity|]. split; [apply ko_set_orig_first|reflexivity].
    + injection E as E; subst p. rewrite find_srv_weight, F. cbn [option_map].
      exists (map kc (shadow s)), (set_orig_first (shadow s) k (cur r)), (cur r).
      split; [reflexivity|]. split; [|split; [apply wfr_cur_nonneg; assumption|split; [|exact I]]].
      * split; [rewrite keys_map_kc, skey_set_orig_first; reflexivity|].
        split; [rewrite skey_set_orig_first; assumption|].
        apply Forall_forall. intros r' Hr'. apply in_set_orig_first in Hr'. rewrite Forall_forall in Hw.
        destruct Hr' as [Hr'|(r0 & _ & ->)]; [apply (Hw r' Hr')|cbn; apply wfr_cur_nonneg; assumption].
      * right. exists r. split; [reflexivity|]. split; [apply ko_set_orig_first|reflexivity].
  - (* new record *)
    assert (Hnk : ~ In k (map skey (shadow s))) by (apply find_srv_none; assumption).
    set (cw := match w with Some x => if x =? 0 then defaultWeight else x | None => defaultWeight end).
    assert (Ew : p = map kc (shadow s) ++ [(k, cw)] /\ 1 <= cw /\ match w with Some x => 0 <= x | None => True end).
    { unfold cw, defaultWeight. destruct w as [x|]; [|inv E; repeat split; lia].
      destruct (Z.ltb_spec x 0); [discriminate|]. inv E. destruct (Z.eqb_spec x 0); repeat split; lia. }
    destruct Ew as (-> & Hcw & Hx).
    rewrite rr_weight_app. rewrite find_srv_weight, F. cbn [option_map]. rewrite Z.eqb_refl.
    exists (map kc (shadow s) ++ [(k, cw)]), (shadow s ++ [{| skey := k; orig := cw; cur := cw; good := false |}]), cw.
    split; [reflexivity|]. split; [|split; [lia|split; [|assumption]]].
    + split; [unfold keys; rewrite !map_app, map_map; reflexivity|]. rewrite map_app. cbn.
      split.
      * apply NoDup_app_one; assumption.
      * apply Forall_app. split; [|constructor; [cbn; lia|constructor]].
        eapply Forall_impl; [|exact Hw]. unfold wfr. intros; lia.
    + left. split; [reflexivity|]. split; [rewrite map_app; reflexivity|reflexivity]. Qed.

Lemma upsert_none s k w : Inv s -> (upsert s k w = None <-> exists x, w = Some x /\ x < 0).
Proof. intros _. unfold upsert, rr_upsert. split.
  - destruct (rr_weight (pool s) k); destruct w as [x|]; try discriminate;
      destruct (Z.ltb_spec x 0); try discriminate; eauto.
  - intros (x & -> & Hx). destruct (rr_weight (pool s) k); destruct (Z.ltb_spec x 0); try lia; reflexivity. Qed.

(* ---------- Remove ---------- *)
Lemma remove_cases s k s' : Inv s -> remove s k = Some s' ->
  exists r, find_srv (shadow s) k = Some r /\
    s' = reset {| pool := rr_remove_first (pool s) k; shadow := remove_first (shadow s) k; timer := timer s; now := now s |} /\
    Pre (rr_remove_first (pool s) k) (remove_first (shadow s) k).
Proof. intros [Hp Hnd Hw Hs] H. unfold remove in H. destruct (find_srv (shadow s) k) as [r|] eqn:F; [|discriminate].
  unfold rr_remove in H. destruct (rr_weight (pool s) k); [|discriminate]. inv H.
  exists r. split; [reflexivity|]. split; [reflexivity|]. rewrite Hp, <- kc_remove_first.
  split; [apply keys_map_kc|]. split; [apply nodup_remove_first; assumption|].
  apply Forall_forall. intros r' Hr'. apply in_remove_first in Hr'. rewrite Forall_forall in Hw. apply (Hw r' Hr'). Qed.

Lemma remove_none s k : Inv s -> (remove s k = None <-> find_srv (shadow s) k = None).
Proof. intros [Hp Hnd Hw Hs]. unfold remove, rr_remove. rewrite Hp, find_srv_weight.
  destruct (find_srv (shadow s) k); cbn; split; congruence. Qed.

(* ---------- the weight arithmetic of one record ---------- *)
Lemma decrease_spec o c : 0 <= c -> decrease o c = Z.max o (c / FSMGrowFactor).
Proof. intros H. unfold decrease, FSMGrowFactor. rewrite Z.quot_div_nonneg by lia.
  destruct (Z.ltb_spec (c / 4) o); lia. Qed.

Lemma mark_one_facts r : wfr r ->
  let r' := fst (mark_one r) in
  wfr r' /\ skey r' = skey r /\ orig r' = orig r /\ cur r <= cur r' /\ (good r = false -> cur r' = cur r).
Proof. unfold wfr, mark_one, increase, FSMGrowFactor, FSMMaxWeight. intros H.
  destruct (good r); cbn; [|repeat split; try lia].
  destruct (Z.leb_spec (cur r * 4) 4096); cbn; repeat split; try lia; discriminate. Qed.

Lemma conv_one_facts r : wfr r ->
  let r' := fst (conv_one r) in wfr r' /\ skey r' = skey r /\ orig r' = orig r.
Proof. intros H. pose proof (wfr_cur_nonneg r H) as Hc. unfold conv_one. destruct (Z.eqb_spec (orig r) (cur r)); cbn; [tauto|].
  rewrite decrease_spec by assumption. unfold wfr, FSMGrowFactor, FSMMaxWeight in *. cbn.
  pose proof (Z.div_le_upper_bound (cur r) 4 (cur r) ltac:(lia) ltac:(lia)).
  pose proof (Z.div_pos (cur r) 4 ltac:(lia) ltac:(lia)).
  assert (orig r = 0 -> cur r / 4 = 0) by (intros E; destruct H as (_ & Hz & _); rewrite (Hz E); reflexivity).
  repeat split; try lia. Qed.

Lemma wfr_div r g : wfr r -> 1 <= g -> (g | cur r) -> wfr (set_cur r (cur r / g)).
Proof. unfold wfr. intros H Hg [q Hq]. cbn. rewrite Hq, Z.div_mul by lia.
  assert (0 <= cur r) by lia. assert (0 <= q) by nia.
  repeat split; try lia; try nia. Qed.

Lemma wfr_set_good r g : wfr r -> wfr (set_good r g).
Proof. unfold wfr. cbn. tauto. Qed.

(* ---------- adjustWeights ---------- *)
(* normalise + apply + setTimer after a per-record update f that keeps key and configured weight *)
Lemma applied_spec b s sh1 (f : srv -> srv) : Inv s -> (2 <= length (shadow s))%nat ->
  map skey sh1 = map skey (shadow s) -> map ko sh1 = map ko (shadow s) -> Forall wfr sh1 ->
  (forall r, wfr r -> wfr (f r) /\ skey (f r) = skey r /\ orig (f r) = orig r) ->
  let sh2 := normalize (map f sh1) in
  let s' := {| pool := apply_pool (pool s) sh2; shadow := sh2; timer := now s + b; now := now s |} in
  Inv s' /\ map ko (shadow s') = map ko (shadow s) /\ length (shadow s') = length (shadow s).
Proof. intros [Hp Hnd Hw Hs] Hlen Hk Hko Hw1 Hf sh2 s'.
  assert (Hw1' : Forall wfr (map f sh1)).
  { apply Forall_forall. intros r Hr. apply in_map_iff in Hr. destruct Hr as (x & <- & Hx).
    rewrite Forall_forall in Hw1. apply Hf. auto. }
  destruct (normalize_spec (map f sh1) (wfr_all_nonneg _ Hw1')) as (g & Hg & Hdiv & En).
  assert (Hk2 : map skey sh2 = map skey (shadow s)).
  { unfold sh2. rewrite En, !map_map. rewrite <- Hk. apply map_ext_in. intros r Hr. cbn.
    rewrite Forall_forall in Hw1. apply Hf. auto. }
  assert (Hko2 : map ko sh2 = map ko (shadow s)).
  { unfold sh2. rewrite En, !map_map. rewrite <- Hko. apply map_ext_in. intros r Hr. unfold ko. cbn.
    rewrite Forall_forall in Hw1. destruct (Hf r (Hw1 r Hr)) as (_ & -> & ->). reflexivity. }
  assert (Hw2 : Forall wfr sh2).
  { unfold sh2. rewrite En. apply Forall_forall. intros r Hr. apply in_map_iff in Hr. destruct Hr as (x & <- & Hx).
    rewrite Forall_forall in Hw1', Hdiv. apply wfr_div; auto. }
  assert (Hl2 : length sh2 = length (shadow s)).
  { rewrite <- (map_length skey sh2), Hk2, map_length. reflexivity. }
  split; [|split; [exact Hko2|exact Hl2]].
  constructor; cbn.
  - apply apply_pool_sync; [rewrite Hp, keys_map_kc; congruence|congruence|apply wfr_all_nonneg; assumption].
  - congruence.
  - exact Hw2.
  - lia. Qed.

Lemma adjust_core_spec b s goodf : Inv s -> (2 <= length (shadow s))%nat ->
  let s' := adjust_core b s goodf in
  Inv s' /\ map ko (shadow s') = map ko (shadow s) /\ now s' = now s /\ length (shadow s') = length (shadow s) /\
  ((pool s' = pool s /\ timer s' = timer s) \/ timer s' = now s + b).
Proof. intros HI Hlen. pose proof HI as [Hp Hnd Hw Hs]. unfold adjust_core.
  set (sh1 := map (fun r => set_good r (goodf (skey r))) (shadow s)).
  assert (Hk : map skey sh1 = map skey (shadow s)) by (unfold sh1; rewrite map_map; reflexivity).
  assert (Hko : map ko sh1 = map ko (shadow s)) by (unfold sh1; rewrite map_map; reflexivity).
  assert (Hkc : map kc sh1 = map kc (shadow s)) by (unfold sh1; rewrite map_map; reflexivity).
  assert (Hw1 : Forall wfr sh1).
  { unfold sh1. apply Forall_forall. intros r Hr. apply in_map_iff in Hr. destruct Hr as (x & <- & Hx).
    rewrite Forall_forall in Hw. apply wfr_set_good. auto. }
  assert (Hflag : let s' := {| pool := pool s; shadow := sh1; timer := timer s; now := now s |} in
     Inv s' /\ map ko (shadow s') = map ko (shadow s) /\ now s' = now s /\ length (shadow s') = length (shadow s) /\
     ((pool s' = pool s /\ timer s' = timer s) \/ timer s' = now s + b)).
  { cbn. split; [|split; [exact Hko|split; [reflexivity|split; [unfold sh1; apply map_length|left; split; reflexivity]]]].
    constructor; cbn; [congruence|congruence|exact Hw1|]. unfold sh1. rewrite map_length. lia. }
  destruct (existsb good sh1 && existsb (fun r => negb (good r)) sh1).
  - destruct (existsb (fun r => snd (mark_one r)) sh1); [|exact Hflag].
    destruct (applied_spec b s sh1 (fun r => fst (mark_one r)) HI Hlen Hk Hko Hw1) as (A & B & C).
    { intros r Hr. pose proof (mark_one_facts r Hr). cbn in H. tauto. }
    cbv zeta in *. cbn [pool shadow timer now] in *.
    split; [exact A|split; [exact B|split; [reflexivity|split; [exact C|right; reflexivity]]]].
  - destruct (existsb (fun r => snd (conv_one r)) sh1); [|exact Hflag].
    destruct (applied_spec b s sh1 (fun r => fst (conv_one r)) HI Hlen Hk Hko Hw1) as (A & B & C).
    { intros r Hr. pose proof (conv_one_facts r Hr). cbn in H. tauto. }
    cbv zeta in *. cbn [pool shadow timer now] in *.
    split; [exact A|split; [exact B|split; [reflexivity|split; [exact C|right; reflexivity]]]]. Qed.

Lemma adjust_spec b s ms : Inv s ->
  let s' := adjust b s ms in
  Inv s' /\ map ko (shadow s') = map ko (shadow s) /\ now s' = now s /\ length (shadow s') = length (shadow s) /\
  ((pool s' = pool s /\ timer s' = timer s) \/ (timer s < now s /\ timer s' = now s + b)).
Proof. intros HI. unfold adjust.
  assert (Hsame : Inv s /\ map ko (shadow s) = map ko (shadow s) /\ now s = now s /\ length (shadow s) = length (shadow s) /\
     ((pool s = pool s /\ timer s = timer s) \/ (timer s < now s /\ timer s = now s + b)))
    by (split; [exact HI|split; [reflexivity|split; [reflexivity|split; [reflexivity|left; split; reflexivity]]]]).
  destruct (Nat.ltb_spec (length (shadow s)) 2); [exact Hsame|].
  destruct (negb (forallb _ (shadow s))); [exact Hsame|].
  destruct (Z.ltb_spec (timer s) (now s)); cbn [negb]; [|exact Hsame].
  destruct (adjust_core_spec b s (classify (shadow s) ms) HI ltac:(lia)) as (A & B & C & D & E).
  split; [exact A|split; [exact B|split; [exact C|split; [exact D|]]]].
  destruct E as [E|E]; [left; exact E|right; split; assumption]. Qed.

Lemma serve_spec b s ms : Inv s ->
  let s' := serve b s ms in
  Inv s' /\ map ko (shadow s') = map ko (shadow s) /\ now s' = now s /\ length (shadow s') = length (shadow s) /\
  ((pool s' = pool s /\ timer s' = timer s) \/ (timer s < now s /\ timer s' = now s + b)).
Proof. intros HI. unfold serve. destruct (servable (pool s)); [apply adjust_spec; assumption|].
  split; [exact HI|split; [reflexivity|split; [reflexivity|split; [reflexivity|left; split; reflexivity]]]]. Qed.

(* ---------- every step keeps the invariant ---------- *)
Lemma step_Inv b s o : Inv s -> Inv (fst (step b s o)).
Proof. intros HI. destruct o as [k w|k|ms|d]; cbn.
  - destruct (upsert s k w) as [s'|] eqn:E; cbn; [|exact HI].
    destruct (upsert_cases s k w s' HI E) as (p & sh & cw & -> & HP & _). apply (reset_spec p sh _ _ HP).
  - destruct (remove s k) as [s'|] eqn:E; cbn; [|exact HI].
    destruct (remove_cases s k s' HI E) as (r & _ & -> & HP). apply (reset_spec _ _ _ _ HP).
  - apply serve_spec. exact HI.
  - destruct HI as [Hp Hnd Hw Hs]. constructor; cbn; assumption. Qed.

Lemma exec_Inv b ops : forall s, Inv s -> Inv (exec (step b) s ops).
Proof. apply (exec_inv (step b) Inv). intros s o. apply step_Inv. Qed.

Lemma reachable_Inv b ops : Inv (exec (step b) init ops).
Proof. apply exec_Inv, Inv_init. Qed.

(* ---------------------------------------------------------------------------------------------
   C10_bounds, C02b_shadow_sync
   --------------------------------------------------------------------------------------------- *)
Lemma bounds b ops : let s := exec (step b) init ops in
  pool s = map kc (shadow s) /\
  forall r, In r (shadow s) -> 1 <= orig r -> 1 <= cur r <= Z.max FSMMaxWeight (orig r).
Proof. cbn. destruct (reachable_Inv b ops) as [Hp Hnd Hw Hs]. split; [exact Hp|].
  intros r Hr Ho. rewrite Forall_forall in Hw. destruct (Hw r Hr) as (_ & _ & A & B). split; [auto|exact B]. Qed.

(* the balancer's weight of every configured server is the record's current weight, and in range *)
Lemma bounds_pool b ops k : let s := exec (step b) init ops in
  forall r, find_srv (shadow s) k = Some r ->
  rr_weight (pool s) k = Some (cur r) /\ (1 <= orig r -> 1 <= cur r <= Z.max FSMMaxWeight (orig r)).
Proof. cbn. intros r F. destruct (bounds b ops) as [Hp Hb]. cbn in Hp, Hb. rewrite Hp, find_srv_weight, F. split; [reflexivity|].
  apply Hb. apply (find_srv_in _ _ _ F). Qed.

Lemma shadow_sync b ops : let s := exec (step b) init ops in
  map fst (pool s) = map skey (shadow s) /\ NoDup (map skey (shadow s)) /\ NoDup (map fst (pool s)).
Proof. cbn. destruct (reachable_Inv b ops) as [Hp Hnd Hw Hs].
  assert (E : map fst (pool (exec (step b) init ops)) = map skey (shadow (exec (step b) init ops))).
  { rewrite Hp. apply keys_map_kc. }
  split; [exact E|]. split; [exact Hnd|rewrite E; exact Hnd]. Qed.

(* ---------------------------------------------------------------------------------------------
   C10_reset_restores
   --------------------------------------------------------------------------------------------- *)
Definition is_admin (o : op) : bool := match o with Upsert _ _ | Remove _ => true | _ => false end.
Definition succeeded (out : list Z) : Prop := hd 1 out = 0.

Lemma obs_hd e s d : hd d (obs e s) = e.
Proof. reflexivity. Qed.

Lemma admin_restores b s o : Inv s -> is_admin o = true -> succeeded (snd (step b s o)) ->
  restored (fst (step b s o)).
Proof. intros HI Ha Hs. destruct o as [k w|k|ms|d]; try discriminate; cbn in *.
  - destruct (upsert s k w) as [s'|] eqn:E; cbn in *; [|unfold succeeded in Hs; cbn in Hs; discriminate].
    destruct (upsert_cases s k w s' HI E) as (p & sh & cw & -> & HP & _). apply (reset_spec p sh _ _ HP).
  - destruct (remove s k) as [s'|] eqn:E; cbn in *; [|unfold succeeded in Hs; cbn in Hs; discriminate].
    destruct (remove_cases s k s' HI E) as (r & _ & -> & HP). apply (reset_spec _ _ _ _ HP). Qed.

(* a failing call changes nothing *)
Lemma failed_unchanged b s o : ~ succeeded (snd (step b s o)) -> fst (step b s o) = s.
Proof. unfold succeeded. destruct o as [k w|k|ms|d]; cbn.
  - destruct (upsert s k w); cbn; [tauto|reflexivity].
  - destruct (remove s k); cbn; [tauto|reflexivity].
  - tauto.
  - tauto. Qed.

(* ---------------------------------------------------------------------------------------------
   C10_backoff
   --------------------------------------------------------------------------------------------- *)
(* a stretch of history without a reset: requests, non-negative ticks, and administrative calls that fail *)
Fixpoint no_reset (b : Z) (s : st) (ops : list op) : Prop :=
  match ops with
  | [] => True
  | o :: r => match o with
              | Adjust _ => True
              | Tick d => 0 <= d
              | _ => ~ succeeded (snd (step b s o))
              end /\ no_reset b (fst (step b s o)) r
  end.

Lemma no_reset_timer b T : forall ops s, Inv s -> no_reset b s ops -> T <= now s -> T + b <= timer s ->
  let s' := exec (step b) s ops in Inv s' /\ T <= now s' /\ T + b <= timer s'.
Proof. induction ops as [|o ops IH]; intros s HI Hq Hn Ht; cbn; [auto|].
  destruct Hq as [Ho Hq]. apply IH; try exact Hq; try (apply step_Inv; exact HI).
  - destruct o as [k w|k|ms|d].
    + rewrite (failed_unchanged _ _ _ Ho). exact Hn.
    + rewrite (failed_unchanged _ _ _ Ho). exact Hn.
    + cbn. destruct (serve_spec b s ms HI) as (_ & _ & -> & _). exact Hn.
    + cbn. lia.
  - destruct o as [k w|k|ms|d].
    + rewrite (failed_unchanged _ _ _ Ho). exact Ht.
    + rewrite (failed_unchanged _ _ _ Ho). exact Ht.
    + cbn. destruct (serve_spec b s ms HI) as (_ & _ & _ & _ & [[_ ->]|[_ ->]]); lia.
    + cbn. exact Ht. Qed.

Lemma backoff b s1 ms1 mid ms2 : Inv s1 ->
  let s1' := fst (step b s1 (Adjust ms1)) in
  let s2 := exec (step b) s1' mid in
  let s2' := fst (step b s2 (Adjust ms2)) in
  no_reset b s1' mid -> pool s1' <> pool s1 -> pool s2' <> pool s2 -> b < now s2 - now s1.
Proof. intros HI. cbn. intros Hq H1 H2.
  destruct (serve_spec b s1 ms1 HI) as (HI1 & _ & Hn1 & _ & [[E _]|[_ Ht1]]); [congruence|].
  destruct (no_reset_timer b (now s1) mid _ HI1 Hq ltac:(lia) ltac:(lia)) as (HI2 & Hn2 & Ht2).
  destruct (serve_spec b _ ms2 HI2) as (_ & _ & _ & _ & [[E _]|[Hlt _]]); [congruence|]. lia. Qed.

(* ---------------------------------------------------------------------------------------------
   C02b_refines: the key -> configured weight map
   --------------------------------------------------------------------------------------------- *)
Definition spec := Z -> option Z.
Definition spec_init : spec := fun _ => None.
Definition spec_set (m : spec) (k : Z) (v : option Z) : spec := fun k' => if k' =? k then v else m k'.

(* Upsert with a weight: negative fails; an existing server gets exactly that weight, a new one gets it with 0 meaning
   the default weight. Upsert without a weight adds a new server with the default weight (on an existing server it is
   specified as a no-op; histories in the theorem do not contain that case, see `explicit`). Remove of an unknown fails. *)
Definition spec_step (m : spec) (o : op) : spec * Z :=
  match o with
  | Upsert k (Some w) =>
      if w <? 0 then (m, 1)
      else (spec_set m k (Some (match m k with Some _ => w | None => if w =? 0 then defaultWeight else w end)), 0)
  | Upsert k None => match m k with Some _ => (m, 0) | None => (spec_set m k (Some defaultWeight), 0) end
  | Remove k => match m k with Some _ => (spec_set m k None, 0) | None => (m, 1) end
  | _ => (m, 0)
  end.

Fixpoint spec_exec (m : spec) (ops : list op) : spec :=
  match ops with [] => m | o :: r => spec_exec (fst (spec_step m o)) r end.
Fixpoint spec_outs (m : spec) (ops : list op) : list Z :=
  match ops with [] => [] | o :: r => snd (spec_step m o) :: spec_outs (fst (spec_step m o)) r end.

(* no weight-less upsert of a server that is already a member *)
Fixpoint explicit (m : spec) (ops : list op) : Prop :=
  match ops with
  | [] => True
  | o :: r => match o with Upsert k None => m k = None | _ => True end /\ explicit (fst (spec_step m o)) r
  end.

Definition abs (s : st) : spec := fun k => rr_weight (map ko (shadow s)) k.

Lemma abs_find s k : abs s k = option_map orig (find_srv (shadow s) k).
Proof. apply find_srv_orig. Qed.

Lemma refines_step b s m o : Inv s -> (forall k, abs s k = m k) ->
  match o with Upsert k None => m k = None | _ => True end ->
  (forall k, abs (fst (step b s o)) k = fst (spec_step m o) k) /\ hd 1 (snd (step b s o)) = snd (spec_step m o).
Proof. intros HI HR Hex. destruct o as [k w|k|ms|d]; cbn [step].
  - destruct (upsert s k w) as [s'|] eqn:E; cbn [fst snd].
    + destruct (upsert_cases s k w s' HI E) as (p & sh & cw & -> & HP & Hcw & Hc & Hx).
      pose proof (reset_spec p sh (timer s) (now s) HP) as Hrs. cbv zeta in Hrs. destruct Hrs as (_ & _ & Hko & _).
      rewrite obs_hd. unfold abs. cbn [spec_step]. split.
      * intros k'. rewrite Hko. destruct Hc as [(F & Hsh & Ecw)|(r & F & Hsh & Ecw)]; rewrite Hsh.
        -- rewrite rr_weight_app. fold (abs s k'). rewrite HR.
           assert (Hmk : m k = None) by (rewrite <- HR, abs_find, F; reflexivity).
           destruct w as [x|].
           ++ destruct (Z.ltb_spec x 0); [lia|]. cbn [fst]. unfold spec_set. rewrite Hmk.
              destruct (Z.eqb_spec k' k) as [->|Hne]; [rewrite Hmk; congruence|destruct (m k'); reflexivity].
           ++ rewrite Hmk. cbn [fst]. unfold spec_set.
              destruct (Z.eqb_spec k' k) as [->|Hne]; [rewrite Hmk; congruence|destruct (m k'); reflexivity].
        -- rewrite rr_weight_set. fold (abs s k) (abs s k').
           assert (Hmk : m k = Some (orig r)) by (rewrite <- HR, abs_find, F; reflexivity).
           rewrite !HR, Hmk. destruct w as [x|]; [|congruence].
           destruct (Z.ltb_spec x 0); [lia|]. cbn [fst]. unfold spec_set. rewrite Ecw. reflexivity.
      * destruct w as [x|].
        -- destruct (Z.ltb_spec x 0); [lia|reflexivity].
        -- destruct (m k); reflexivity.
    + apply upsert_none in E; [|exact HI]. destruct E as (x & -> & Hx). cbn [spec_step].
      destruct (Z.ltb_spec x 0); [|lia]. split; [exact HR|reflexivity].
  - destruct (remove s k) as [s'|] eqn:E; cbn [fst snd spec_step].
    + destruct (remove_cases s k s' HI E) as (r & F & -> & HP).
      pose proof (reset_spec _ _ (timer s) (now s) HP) as Hrs. cbv zeta in Hrs. destruct Hrs as (_ & _ & Hko & _).
      assert (Hmk : m k = Some (orig r)) by (rewrite <- HR, abs_find, F; reflexivity).
      rewrite Hmk. cbn [fst snd]. split; [|reflexivity]. intros k'. unfold abs. rewrite Hko, ko_remove_first.
      rewrite rr_weight_remove_first by (rewrite keys_map_ko; apply HI). fold (abs s k'). rewrite HR. reflexivity.
    + apply remove_none in E; [|exact HI].
      assert (Hmk : m k = None) by (rewrite <- HR, abs_find, E; reflexivity).
      rewrite Hmk. split; [exact HR|reflexivity].
  - cbn. split; [|reflexivity]. intros k. unfold abs. destruct (serve_spec b s ms HI) as (_ & -> & _). apply HR.
  - cbn. split; [|reflexivity]. exact HR. Qed.

Lemma refines_exec b : forall ops s m, Inv s -> (forall k, abs s k = m k) -> explicit m ops ->
  (forall k, abs (exec (step b) s ops) k = spec_exec m ops k) /\
  map (hd 1) (run_from (step b) s ops) = spec_outs m ops.
Proof. induction ops as [|o ops IH]; intros s m HI HR Hex; cbn; [auto|].
  destruct Hex as [Ho Hex]. destruct (refines_step b s m o HI HR Ho) as [A B].
  destruct (step b s o) as [s' out] eqn:E. cbn in *.
  assert (HI' : Inv s') by (replace s' with (fst (step b s o)) by (rewrite E; reflexivity); apply step_Inv; exact HI).
  destruct (IH s' _ HI' A Hex) as [C D]. split; [exact C|]. cbn. rewrite B, D. reflexivity. Qed.

Lemma refines b ops : explicit spec_init ops ->
  let s := exec (step b) init ops in
  (forall k, abs s k = spec_exec spec_init ops k) /\
  map (hd 1) (run_from (step b) init ops) = spec_outs spec_init ops /\
  (forall k, In k (map fst (pool s)) <-> spec_exec spec_init ops k <> None).
Proof. intros Hex. cbn. destruct (refines_exec b ops init spec_init Inv_init (fun _ => eq_refl) Hex) as [A B].
  split; [exact A|]. split; [exact B|]. intros k. rewrite <- A.
  destruct (shadow_sync b ops) as (E & _). cbn in E. rewrite E, <- keys_map_ko. unfold abs.
  split.
  - intros Hin. apply rr_weight_in in Hin. destruct Hin as [w ->]. discriminate.
  - intros Hn. destruct (rr_weight (map ko (shadow (exec (step b) init ops))) k) eqn:F; [|congruence].
    eapply rr_weight_some_in. exact F. Qed.

(* the recorded quirk: upserting a member without a weight adopts the currently applied (adjusted) weight as the
   configured one, so without `explicit` the refinement fails *)
Lemma refines_needs_explicit :
  let ops := [Upsert 1 (Some 1); Upsert 2 (Some 1); Tick 1; Adjust [(1, true, 0); (2, true, 1024)]; Upsert 1 None] in
  abs (exec (step second) init ops) 1 = Some 4 /\ spec_exec spec_init ops 1 = Some 1.
Proof. vm_compute. split; reflexivity. Qed.

Lemma refines_weightless_refuted : exists b ops k, abs (exec (step b) init ops) k <> spec_exec spec_init ops k.
Proof. exists second, [Upsert 1 (Some 1); Upsert 2 (Some 1); Tick 1; Adjust [(1, true, 0); (2, true, 1024)]; Upsert 1 None], 1.
  destruct refines_needs_explicit as [A B]. cbv zeta in A, B. rewrite A, B. discriminate. Qed.

Lemma unknown_remove_fails b ops k : let s := exec (step b) init ops in
  ~ In k (map fst (pool s)) -> step b s (Remove k) = (s, obs 1 s).
Proof. intros s Hk. unfold s in *. cbn [step].
  destruct (shadow_sync b ops) as (E & _). cbv zeta in E. rewrite E in Hk. apply find_srv_none in Hk.
  apply (remove_none _ k (reachable_Inv b ops)) in Hk. rewrite Hk. reflexivity. Qed.
