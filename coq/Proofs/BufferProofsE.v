(* The statements used by Props/C06.v, C07.v, C15.v, about ServeHTTP as a whole. *)
From Oxy Require Import Base.Prelude Model.Multibuf Model.Buffer
  Proofs.BufferProofsA Proofs.BufferProofsB Proofs.BufferProofsC Proofs.BufferProofsD.
Open Scope Z_scope.

Lemma over_dec c rq body : {over_request_limit c rq body} + {~ over_request_limit c rq body}.
Proof. unfold over_request_limit.
  destruct (Z_lt_dec 0 (maxReq c)); [|right; tauto].
  destruct (Z_lt_dec (maxReq c) (q_cl rq)); [left; tauto|].
  destruct (Z_lt_dec (maxReq c) (blen body)); [left; tauto|right; tauto]. Qed.

(* the invocations, whatever happens *)
Lemma invs_shape c fs hp rq body scripts : valid_call c fs hp rq ->
  exists cnt, (cnt <= 11)%nat /\
    res_invs (serve c fs hp rq body scripts) = map (fun j => exp_rec rq hp body (script_of scripts j)) (zseq 1 cnt).
Proof. intros (V1 & V2 & V3 & V4). destruct (over_dec c rq body) as [O|O].
  - destruct (serve_rejected c fs hp rq body scripts V1 V2 O) as (_ & E & _). exists 0%nat. split; [lia|]. rewrite E. reflexivity.
  - destruct (serve_accepted c fs hp rq body scripts V1 V2 V3 V4 O) as (cnt & _ & B & _ & E & _). exists cnt. split; [lia|exact E]. Qed.

(* ---- C06 ---- *)
Lemma c06_body_exact mem max body fs r : 0 <= mem -> snd (mb_new mem max body fs) = inr r ->
  r_mem r ++ match r_file r with Some f => f | None => [] end = body /\
  r_len r = blen body /\ fst (mr_read (-1) r) = body /\ fst (mr_read (-1) (mr_seek0 (snd (mr_read (-1) r)))) = body /\
  r_mem r = ztake (mem_eff mem max) body /\ (r_file r = None <-> blen body < mem_eff mem max).
Proof. intros Hm E. pose proof (mb_new_ok mem max body fs Hm) as N. rewrite E in N.
  destruct N as (_ & N1 & N2 & N3 & _ & N5 & N6). unfold r_all in N1.
  split; [exact N1|]. split; [exact N3|]. split; [cbn; exact N2|]. split; [|split; [exact N5|exact N6]].
  cbn. unfold r_all. cbn. exact N1. Qed.

Lemma c06_request_as_sent c fs hp rq body scripts : valid_call c fs hp rq ->
  Forall (fun i => i_method i = q_method rq /\ i_url i = as_url (hread hp (q_url rq)) /\
                   i_hdr i = as_hdr (hread hp (q_hdr rq)) /\ i_cl i = blen body /\ i_te i = [])
         (res_invs (serve c fs hp rq body scripts)).
Proof. intros V. destruct (invs_shape c fs hp rq body scripts V) as (cnt & _ & E). rewrite E.
  apply Forall_forall. intros i Hi. apply in_map_iff in Hi. destruct Hi as (j & <- & _). cbn. auto. Qed.

Lemma c06_replay c fs hp rq body scripts : valid_call c fs hp rq ->
  forall k i, nth_error (res_invs (serve c fs hp rq body scripts)) k = Some i ->
    i_read i = read_spec (script_of scripts (Z.of_nat k + 1)) body.
Proof. intros V k i H. destruct (invs_shape c fs hp rq body scripts V) as (cnt & _ & E). rewrite E in H.
  rewrite nth_error_map in H. destruct (nth_error (zseq 1 cnt) k) as [j|] eqn:Ej; [|discriminate].
  assert (Hk : (k < cnt)%nat).
  { rewrite <- (zseq_length 1 cnt). apply nth_error_Some. rewrite Ej. discriminate. }
  rewrite (zseq_nth 1 cnt k Hk) in Ej. replace (1 + Z.of_nat k) with (Z.of_nat k + 1) in Ej by lia.
  set (j1 := Z.of_nat k + 1) in *. assert (j = j1) by congruence. subst j.
  cbn [option_map] in H. assert (i = exp_rec rq hp body (script_of scripts j1)) by congruence. subst i.
  reflexivity. Qed.

Lemma c06_isolation c fs hp rq body scripts : valid_call c fs hp rq ->
  firstn (length hp) (res_heap (serve c fs hp rq body scripts)) = hp.
Proof. intros (V1 & V2 & V3 & V4). destruct (over_dec c rq body) as [O|O].
  - destruct (serve_rejected c fs hp rq body scripts V1 V2 O) as (_ & _ & _ & E & _). rewrite E. apply firstn_all.
  - destruct (serve_accepted c fs hp rq body scripts V1 V2 V3 V4 O) as (cnt & _ & _ & _ & _ & _ & E & _). exact E. Qed.

(* ---- C07 ---- *)
Lemma c07_final c fs hp rq body scripts : valid_call c fs hp rq -> ~ over_request_limit c rq body ->
  let r := serve c fs hp rq body scripts in
  let n := Z.of_nat (length (res_invs r)) in
  1 <= n <= 11 /\
  attempt_outcome c (q_method rq) n (script_of scripts n) = Done (res_view r) /\
  forall j, 1 <= j < n -> attempt_outcome c (q_method rq) j (script_of scripts j) = Again.
Proof. intros (V1 & V2 & V3 & V4) O. cbn zeta.
  destruct (serve_accepted c fs hp rq body scripts V1 V2 V3 V4 O) as (cnt & A1 & A2 & A3 & A4 & _).
  rewrite A4, map_length, zseq_length. split; [lia|]. split; [exact A3|].
  intros j Hj. apply (ndone_again c (q_method rq) scripts 11 1 cnt A1). lia. Qed.

Lemma outcome_not_again c m k evs : attempt_outcome c m k evs <> Again -> stops c m k evs.
Proof. unfold attempt_outcome, stops, exit_cond, DefaultMaxRetryAttempts. cbn zeta.
  set (a := attempt_abs c evs). intros H.
  destruct (a_hij a); [auto|]. destruct (a_werr a); [auto|].
  destruct (retry c) as [p|]; [|auto]. cbn [orb] in H.
  destruct (Z.ltb_spec 10 k); [auto|]. cbn [orb] in H.
  destruct (eval p {| c_attempt := k; c_code := eff_code a; c_method := m |}) eqn:E.
  - exfalso. apply H. reflexivity.
  - right; right; right; right. exists p; auto. Qed.

Lemma c07_invocations c fs hp rq body scripts : valid_call c fs hp rq -> ~ over_request_limit c rq body ->
  let n := Z.of_nat (length (res_invs (serve c fs hp rq body scripts))) in
  1 <= n <= 11 /\ stops c (q_method rq) n (script_of scripts n) /\
  forall j, 1 <= j < n -> ~ stops c (q_method rq) j (script_of scripts j).
Proof. intros V O. destruct (c07_final c fs hp rq body scripts V O) as (A & B & C). cbn zeta in *.
  split; [exact A|]. split.
  - apply outcome_not_again. rewrite B. discriminate.
  - intros j Hj. apply outcome_again_iff, C, Hj. Qed.

Lemma c07_no_predicate c fs hp rq body scripts : valid_call c fs hp rq -> ~ over_request_limit c rq body ->
  retry c = None -> length (res_invs (serve c fs hp rq body scripts)) = 1%nat.
Proof. intros V O R. destruct (c07_invocations c fs hp rq body scripts V O) as (A & _ & C). cbn zeta in *.
  destruct (Z.eq_dec (Z.of_nat (length (res_invs (serve c fs hp rq body scripts)))) 1) as [E|E]; [lia|].
  exfalso. apply (C 1); [lia|]. unfold stops. cbn zeta. auto. Qed.

Lemma c07_single_response c fs hp rq body scripts : valid_call c fs hp rq -> ~ over_request_limit c rq body ->
  let r := serve c fs hp rq body scripts in
  let n := Z.of_nat (length (res_invs r)) in
  forall fs' hp' rq' body', valid_call (no_retry c) fs' hp' rq' -> ~ over_request_limit (no_retry c) rq' body' ->
    q_method rq' = q_method rq ->
    res_view r = res_view (serve (no_retry c) fs' hp' rq' body' [script_of scripts n]).
Proof. intros V O. cbn zeta. intros fs' hp' rq' body' V' O' Hm.
  destruct (c07_final c fs hp rq body scripts V O) as (_ & B & _). cbn zeta in B.
  apply outcome_solo in B.
  destruct (c07_final (no_retry c) fs' hp' rq' body' [script_of scripts (Z.of_nat (length (res_invs (serve c fs hp rq body scripts))))] V' O')
    as (_ & B' & _). cbn zeta in B'.
  rewrite (c07_no_predicate _ _ _ _ _ _ V' O' eq_refl) in B'. cbn in B'.
  rewrite Hm in B'. congruence. Qed.

(* the response in terms of the final attempt's events *)
Lemma outcome_view_hij c m k evs v : attempt_outcome c m k evs = Done v -> In EHijack evs -> v = hijack_view.
Proof. unfold attempt_outcome, attempt_abs. intros H Hi. rewrite (bw_run_hij (maxResp c) evs abs0 Hi) in H.
  inversion H; reflexivity. Qed.

Lemma outcome_view_over c m k evs v : attempt_outcome c m k evs = Done v -> ~ In EHijack evs ->
  0 < maxResp c -> maxResp c < blen (wbytes evs) -> v = err_view ErrOther.
Proof. unfold attempt_outcome, attempt_abs. intros H Hn Hp Hl.
  destruct (bw_run_nohij (maxResp c) evs abs0 Hn eq_refl) as (N1 & _). rewrite N1 in H.
  rewrite (bw_run_over (maxResp c) evs abs0 Hn eq_refl Hp) in H; [inversion H; reflexivity|cbn; lia|cbn; lia]. Qed.

Lemma outcome_view_within c m k evs v : attempt_outcome c m k evs = Done v -> ~ In EHijack evs ->
  maxResp c <= 0 \/ blen (wbytes evs) <= maxResp c ->
  let code := if code_of evs 0 =? 0 then 200 else code_of evs 0 in
  v = {| v_status := code; v_hdr := hdr_of evs [];
         v_body := if writes evs && expectBody code (hdr_of evs []) m then wbytes evs else [] |}.
Proof. unfold attempt_outcome, attempt_abs. intros H Hn Hl. cbn zeta.
  destruct (bw_run_nohij (maxResp c) evs abs0 Hn eq_refl) as (N1 & N2 & N3 & N4).
  destruct (bw_run_within (maxResp c) evs abs0 Hn eq_refl) as (W1 & W2); [cbn; lia|].
  rewrite N1, W1 in H. cbn [abs0 a_werr] in H.
  destruct (exit_cond _ _ _ _); [|discriminate]. inversion H. unfold final_view, eff_code.
  rewrite N2, N3, N4, W2. reflexivity. Qed.

Lemma c07_response_spec c fs hp rq body scripts : valid_call c fs hp rq -> ~ over_request_limit c rq body ->
  let r := serve c fs hp rq body scripts in
  let evs := script_of scripts (Z.of_nat (length (res_invs r))) in
  (In EHijack evs -> res_view r = hijack_view) /\
  (~ In EHijack evs -> 0 < maxResp c -> maxResp c < blen (wbytes evs) -> res_view r = err_view ErrOther) /\
  (~ In EHijack evs -> maxResp c <= 0 \/ blen (wbytes evs) <= maxResp c ->
     let code := if code_of evs 0 =? 0 then 200 else code_of evs 0 in
     res_view r = {| v_status := code; v_hdr := hdr_of evs [];
                     v_body := if writes evs && expectBody code (hdr_of evs []) (q_method rq) then wbytes evs else [] |}).
Proof. intros V O. destruct (c07_final c fs hp rq body scripts V O) as (_ & B & _). cbn zeta in *.
  split; [|split].
  - intros Hi. exact (outcome_view_hij _ _ _ _ _ B Hi).
  - intros Hn Hp Hl. exact (outcome_view_over _ _ _ _ _ B Hn Hp Hl).
  - intros Hn Hl. exact (outcome_view_within _ _ _ _ _ B Hn Hl). Qed.

(* ---- C15 ---- *)
Lemma c15_request_limit c fs hp rq body scripts : valid_call c fs hp rq ->
  let r := serve c fs hp rq body scripts in
  (over_request_limit c rq body -> res_view r = err_view ErrMaxSize /\ res_invs r = []) /\
  (~ over_request_limit c rq body -> res_invs r <> []).
Proof. intros V. cbn zeta. split.
  - intros O. destruct V as (V1 & V2 & _). destruct (serve_rejected c fs hp rq body scripts V1 V2 O) as (A & B & _). auto.
  - intros O. destruct (c07_final c fs hp rq body scripts V O) as (A & _). cbn zeta in A.
    intros E. rewrite E in A. cbn in A. lia. Qed.

Lemma c15_no_temp_left c fs hp rq body scripts : valid_call c fs hp rq ->
  fnames (res_fs (serve c fs hp rq body scripts)) = fnames fs /\ res_fuel_ok (serve c fs hp rq body scripts) = true.
Proof. intros (V1 & V2 & V3 & V4). destruct (over_dec c rq body) as [O|O].
  - destruct (serve_rejected c fs hp rq body scripts V1 V2 O) as (_ & _ & E & _ & F). auto.
  - destruct (serve_accepted c fs hp rq body scripts V1 V2 V3 V4 O) as (cnt & _ & _ & _ & _ & E & _ & F). auto. Qed.

(* ---- the entry point used by the correspondence harness calls ServeHTTP within the theorems' hypotheses ---- *)
Lemma dec_cfg_mem l : 0 <= memReq (dec_cfg l).
Proof. unfold dec_cfg; cbn [memReq]. unfold DefaultMemBytes. destruct (Z.ltb_spec (znth l 0) 0); lia. Qed.

Lemma exchange_valid l method url hd q :
  valid_call (dec_cfg l) {| fnext := 0; fnames := [] |} [OUrl url; OHdr hd]
             {| q_method := method; q_url := 0%nat; q_hdr := 1%nat; q_cl := fst q; q_te := snd q |}.
Proof. split; [apply dec_cfg_mem|]. split; [constructor|]. cbn. lia. Qed.
