(* Property-level consequences: what the final attempt's response is in terms of its events, when an attempt
   stops the loop, independence of the response from everything but the last script, standard reading of retry
   expressions. *)
From Oxy Require Import Base.Prelude Model.Multibuf Model.Buffer
  Proofs.BufferProofsA Proofs.BufferProofsB Proofs.BufferProofsC.
Open Scope Z_scope.

Definition valid_call (c : cfg) (fs : fsT) (hp : heap) (rq : request) : Prop :=
  0 <= memReq c /\ fs_wf fs /\ (q_url rq < length hp)%nat /\ (q_hdr rq < length hp)%nat.

(* ---- zseq ---- *)
Lemma seq_nth_error n : forall s i, (i < n)%nat -> nth_error (seq s n) i = Some (s + i)%nat.
Proof. induction n as [|n IH]; intros s i H; [lia|].
  destruct i; cbn; [f_equal; lia|]. rewrite IH by lia. f_equal; lia. Qed.
Lemma zseq_nth k n i : (i < n)%nat -> nth_error (zseq k n) i = Some (k + Z.of_nat i).
Proof. intros H. unfold zseq. rewrite nth_error_map, seq_nth_error by exact H. reflexivity. Qed.

(* ---- the abstract response of a script, in terms of its events ---- *)
Fixpoint wbytes (evs : list event) : bytes :=
  match evs with [] => [] | EWrite id n :: r => gen_body id n ++ wbytes r | _ :: r => wbytes r end.
Fixpoint code_of (evs : list event) (c0 : Z) : Z :=
  match evs with [] => c0 | EWriteHeader c :: r => code_of r c | _ :: r => code_of r c0 end.
Fixpoint hdr_of (evs : list event) (h0 : hmap) : hmap :=
  match evs with [] => h0 | ESetHeader k v :: r => hdr_of r (hset k v h0) | _ :: r => hdr_of r h0 end.
Definition is_write (e : event) : bool := match e with EWrite _ _ => true | _ => false end.
Definition writes (evs : list event) : bool := existsb is_write evs.

Lemma bw_run_hij_stays maxR evs a : a_hij a = true -> bw_run maxR a evs = a.
Proof. intros H; destruct evs; cbn; [reflexivity|]. rewrite H; reflexivity. Qed.

Lemma bw_run_hij maxR evs : forall a, In EHijack evs -> a_hij (bw_run maxR a evs) = true.
Proof. induction evs as [|e r IH]; intros a H; [destruct H|]. cbn [bw_run].
  destruct (a_hij a) eqn:E; [exact E|]. destruct H as [->|H].
  - cbn [abs_step]. rewrite bw_run_hij_stays by reflexivity. reflexivity.
  - apply IH, H. Qed.

Lemma abs_step_hij maxR a e : e <> EHijack -> a_hij (abs_step maxR a e) = a_hij a.
Proof. intros H. destruct e; cbn; try reflexivity; [|congruence].
  destruct (_ && _); reflexivity. Qed.

Lemma bw_run_nohij maxR evs : forall a, ~ In EHijack evs -> a_hij a = false ->
  a_hij (bw_run maxR a evs) = false /\
  a_code (bw_run maxR a evs) = code_of evs (a_code a) /\
  a_hdr (bw_run maxR a evs) = hdr_of evs (a_hdr a) /\
  a_wrote (bw_run maxR a evs) = a_wrote a || writes evs.
Proof. induction evs as [|e r IH]; intros a Hn Hh.
  - cbn. rewrite orb_false_r. auto.
  - cbn [bw_run]. rewrite Hh.
    assert (He : e <> EHijack) by (intros ->; apply Hn; left; reflexivity).
    assert (Hr : ~ In EHijack r) by (intros H; apply Hn; right; exact H).
    destruct (IH (abs_step maxR a e) Hr) as (I1 & I2 & I3 & I4).
    { rewrite abs_step_hij by exact He. exact Hh. }
    rewrite I1, I2, I3, I4. split; [reflexivity|].
    destruct e; cbn [abs_step code_of hdr_of writes existsb is_write a_code a_hdr a_wrote]; auto; try congruence.
    destruct (_ && _); cbn; rewrite ?orb_true_r; auto. Qed.

Lemma bw_run_werr_stays maxR evs : forall a, a_werr a = true -> a_werr (bw_run maxR a evs) = true.
Proof. induction evs as [|e r IH]; intros a H; cbn; [exact H|]. destruct (a_hij a); [exact H|]. apply IH.
  destruct e; cbn; auto. destruct (_ && _); cbn; auto. Qed.

(* within the limit (or unlimited): every byte written is kept, in order, and no write fails *)
Lemma bw_run_within maxR evs : forall a, ~ In EHijack evs -> a_hij a = false ->
  maxR <= 0 \/ blen (a_data a) + blen (wbytes evs) <= maxR ->
  a_werr (bw_run maxR a evs) = a_werr a /\ a_data (bw_run maxR a evs) = a_data a ++ wbytes evs.
Proof. induction evs as [|e r IH]; intros a Hn Hh Hl.
  - cbn. rewrite app_nil_r. auto.
  - cbn [bw_run]. rewrite Hh.
    assert (He : e <> EHijack) by (intros ->; apply Hn; left; reflexivity).
    assert (Hr : ~ In EHijack r) by (intros H; apply Hn; right; exact H).
    assert (Hh' : a_hij (abs_step maxR a e) = false) by (rewrite abs_step_hij by exact He; exact Hh).
    destruct e; try (apply (IH _ Hr Hh'); exact Hl); try congruence.
    cbn [wbytes] in *. rewrite blen_app in Hl. pose proof (blen_nonneg (wbytes r)).
    cbn [abs_step] in *.
    destruct ((0 <? maxR) && (maxR <? blen (gen_body id n) + blen (a_data a))) eqn:E.
    + exfalso. apply andb_true_iff in E. destruct E as [E1 E2]. apply Z.ltb_lt in E1, E2. lia.
    + destruct (IH _ Hr Hh') as [I1 I2]; cbn [a_data a_werr] in *.
      { rewrite blen_app. lia. }
      rewrite I1, I2, <- app_assoc. auto. Qed.

(* over a positive limit: some write fails *)
Lemma bw_run_over maxR evs : forall a, ~ In EHijack evs -> a_hij a = false ->
  0 < maxR -> blen (a_data a) <= maxR -> maxR < blen (a_data a) + blen (wbytes evs) ->
  a_werr (bw_run maxR a evs) = true.
Proof. induction evs as [|e r IH]; intros a Hn Hh Hp Hd Hl.
  - cbn [wbytes] in Hl. rewrite blen_nil in Hl. lia.
  - cbn [bw_run]. rewrite Hh.
    assert (He : e <> EHijack) by (intros ->; apply Hn; left; reflexivity).
    assert (Hr : ~ In EHijack r) by (intros H; apply Hn; right; exact H).
    assert (Hh' : a_hij (abs_step maxR a e) = false) by (rewrite abs_step_hij by exact He; exact Hh).
    destruct e; try (apply (IH _ Hr Hh' Hp Hd); exact Hl); try congruence.
    cbn [wbytes] in Hl. rewrite blen_app in Hl.
    cbn [abs_step] in *.
    destruct ((0 <? maxR) && (maxR <? blen (gen_body id n) + blen (a_data a))) eqn:E.
    + apply bw_run_werr_stays. reflexivity.
    + apply (IH _ Hr Hh' Hp); cbn [a_data]; rewrite blen_app.
      * apply andb_false_iff in E. destruct E as [E|E]; [apply Z.ltb_ge in E; lia|apply Z.ltb_ge in E; lia].
      * lia. Qed.

(* ---- when does an attempt stop the loop ---- *)
Definition stops (c : cfg) (m k : Z) (evs : list event) : Prop :=
  let a := attempt_abs c evs in
  a_hij a = true \/ a_werr a = true \/ retry c = None \/ 10 < k \/
  exists p, retry c = Some p /\ eval p {| c_attempt := k; c_code := eff_code a; c_method := m |} = false.

Lemma outcome_again_iff c m k evs : attempt_outcome c m k evs = Again <-> ~ stops c m k evs.
Proof. unfold attempt_outcome, stops, exit_cond, DefaultMaxRetryAttempts. cbn zeta.
  set (a := attempt_abs c evs).
  destruct (a_hij a); [split; [discriminate|intros H; exfalso; apply H; auto]|].
  destruct (a_werr a); [split; [discriminate|intros H; exfalso; apply H; auto]|].
  destruct (retry c) as [p|]; cbn [orb].
  - destruct (Z.ltb_spec 10 k); cbn [orb].
    + split; [discriminate|intros H'; exfalso; apply H'; auto].
    + destruct (eval p _) eqn:E; cbn [negb].
      * split; [|reflexivity]. intros _ [X|[X|[X|[X|(q & X1 & X2)]]]]; try discriminate; try lia.
        inversion X1; subst q. rewrite E in X2. discriminate.
      * split; [discriminate|]. intros H'; exfalso; apply H'. right; right; right; right. exists p; auto.
  - split; [discriminate|intros H; exfalso; apply H; auto]. Qed.

(* ---- the response does not depend on earlier attempts, the body, the heap or the files ---- *)
Definition no_retry (c : cfg) : cfg :=
  {| memReq := memReq c; maxReq := maxReq c; memResp := memResp c; maxResp := maxResp c; retry := None |}.

Lemma outcome_solo c m k evs v : attempt_outcome c m k evs = Done v -> attempt_outcome (no_retry c) m 1 evs = Done v.
Proof. unfold attempt_outcome, attempt_abs, exit_cond. cbn [maxResp retry no_retry].
  destruct (a_hij _); [auto|]. destruct (a_werr _); [auto|].
  cbn [orb]. destruct (_ || _); [auto|discriminate]. Qed.

(* ---- standard reading of retry expressions ---- *)
Definition zcmp (o : cmpop) (x n : Z) : bool :=
  match o with
  | OEq => x =? n | ONeq => negb (x =? n) | OLt => x <? n | OGt => x >? n | OLe => x <=? n | OGe => x >=? n
  end.
Fixpoint wf_pred (p : pred) : Prop :=
  match p with
  | PAnd a b | POr a b => wf_pred a /\ wf_pred b
  | PParen a => wf_pred a
  | PMeth o _ => o = OEq \/ o = ONeq          (* the parser rejects < > <= >= on RequestMethod() *)
  | _ => True
  end.
Fixpoint std_eval (p : pred) (c : pctx) : bool :=
  match p with
  | PAnd a b => std_eval a c && std_eval b c
  | POr a b => std_eval a c || std_eval b c
  | PNet => (c_code c =? 502) || (c_code c =? 504)
  | PCmp o m n => zcmp o (match m with MAttempts => c_attempt c | MCode => c_code c end) n
  | PMeth o s => zcmp o (c_method c) s
  | PParen a => std_eval a c
  end.

Lemma eval_std p c : wf_pred p -> eval p c = std_eval p c.
Proof. induction p as [a IHa b IHb|a IHa b IHb| |o m n|o s|a IHa]; intros W; cbn [eval std_eval wf_pred] in *.
  - destruct W as [Wa Wb]. rewrite IHa, IHb by assumption. destruct (std_eval a c), (std_eval b c); reflexivity.
  - destruct W as [Wa Wb]. rewrite IHa, IHb by assumption. destruct (std_eval a c), (std_eval b c); reflexivity.
  - reflexivity.
  - unfold cmp_int, intEQ, intLT, intGT, pnot, imap_val, zcmp. destruct o, m; try reflexivity;
      match goal with |- context [?x <? ?n] => destruct (Z.ltb_spec x n), (Z.eqb_spec x n), (Z.leb_spec x n); cbn; try reflexivity; lia
                    | |- context [?x >? ?n] => rewrite (Z.gtb_ltb x n), (Z.geb_leb x n);
                         destruct (Z.ltb_spec n x), (Z.eqb_spec x n), (Z.leb_spec n x); cbn; try reflexivity; lia end.
  - unfold cmp_str, stringEQ, pnot, zcmp. destruct W as [->| ->]; reflexivity.
  - apply IHa, W. Qed.
