(* C20: stacks of middlewares are transparent when passive and decisive when one intervenes.
   Well-formed handler traces have the normal form  headers ; status? ; (write | flush)*  and every layer maps
   normal forms to normal forms, so the client's view can be computed in closed form. *)
From Oxy Require Import Base.Prelude Model.Stack.
Open Scope Z_scope.

(* ---------- normal forms ---------- *)
Definition wr := option (list Z).       (* Some bs = Write bs, None = Flush *)
Definition ev_of (w : wr) : wev := match w with Some bs => Write bs | None => Flush end.
Definition hact_of (w : wr) : hact := match w with Some bs => HWrite bs | None => HFlush end.
Definition st_evs (s : option Z) : list wev := match s with Some c => [WriteHeader c] | None => [] end.
Definition st_acts (s : option Z) : list hact := match s with Some c => [HStatus c] | None => [] end.

Definition nf (hs : list (Z * Z)) (s : option Z) (ws : list wr) : list wev :=
  map (fun kv => SetHdr (fst kv) (snd kv)) hs ++ st_evs s ++ map ev_of ws.
Definition nf_handler (hs : list (Z * Z)) (s : option Z) (ws : list wr) : list hact :=
  map (fun kv => HSet (fst kv) (snd kv)) hs ++ st_acts s ++ map hact_of ws.

Definition is_write (w : wr) : bool := match w with Some _ => true | None => false end.
Definition bodies (ws : list wr) : list Z := flat_map (fun w => match w with Some bs => bs | None => [] end) ws.
Definition nflush (ws : list wr) : Z := Z.of_nat (length (filter (fun w => negb (is_write w)) ws)).
Definition code_of (s : option Z) : Z := match s with Some c => if c =? 0 then 200 else c | None => 200 end.
Definition squash (ws : list wr) : list wr := if existsb is_write ws then [Some (bodies ws)] else [].

(* ---------- the handler in normal form ---------- *)
Lemma run_handler_nf c hs s ws :
  run_handler c (nf_handler hs s ws) = nf hs s (if flush_ok c then ws else filter is_write ws).
Proof. unfold nf_handler, nf. induction hs as [|[k v] hs IH]; cbn [map app run_handler fst snd]; [|f_equal; exact IH].
  assert (W : run_handler c (map hact_of ws) = map ev_of (if flush_ok c then ws else filter is_write ws)).
  { induction ws as [|w ws IHw]; cbn; [destruct (flush_ok c); reflexivity|]. destruct w as [bs|]; cbn.
    - rewrite IHw. destruct (flush_ok c); reflexivity.
    - rewrite IHw. destruct (flush_ok c); reflexivity. }
  destruct s as [c0|]; cbn [st_acts st_evs app run_handler]; rewrite W; reflexivity. Qed.

(* ---------- the buffer on a normal form ---------- *)
Lemma has_hijack_nf hs s ws : has_hijack (nf hs s ws) = false.
Proof. unfold nf. induction hs as [|[k v] hs IH]; cbn; [|exact IH]. destruct s; cbn; induction ws as [|[bs|] ws IHw]; cbn; auto. Qed.

Lemma hdrs_of_nf hs s ws : hdrs_of (nf hs s ws) = map (fun kv => SetHdr (fst kv) (snd kv)) hs.
Proof. unfold nf. induction hs as [|[k v] hs IH]; cbn; [|f_equal; exact IH]. destruct s; cbn; induction ws as [|[bs|] ws IHw]; cbn; auto. Qed.

Lemma status_of_ws ws c : status_of (map ev_of ws) c = c.
Proof. induction ws as [|[bs|] ws IH]; cbn; auto. Qed.

Lemma status_of_nf hs s ws : status_of (nf hs s ws) 0 = match s with Some c => c | None => 0 end.
Proof. unfold nf. induction hs as [|[k v] hs IH]; cbn; [|exact IH]. destruct s; cbn; apply status_of_ws. Qed.

Lemma body_of_ws ws : body_of (map ev_of ws) = bodies ws.
Proof. induction ws as [|[bs|] ws IH]; cbn; [reflexivity|f_equal; exact IH|exact IH]. Qed.

Lemma body_of_nf hs s ws : body_of (nf hs s ws) = bodies ws.
Proof. unfold nf. induction hs as [|[k v] hs IH]; cbn; [|exact IH]. destruct s; cbn; apply body_of_ws. Qed.

Lemma wrote_ws ws : wrote (map ev_of ws) = existsb is_write ws.
Proof. induction ws as [|[bs|] ws IH]; cbn; auto. Qed.

Lemma wrote_nf hs s ws : wrote (nf hs s ws) = existsb is_write ws.
Proof. unfold nf. induction hs as [|[k v] hs IH]; cbn; [|exact IH]. destruct s; cbn; apply wrote_ws. Qed.

Lemma buffered_nf hs s ws : buffered (nf hs s ws) = nf hs (Some (code_of s)) (squash ws).
Proof. unfold buffered. rewrite has_hijack_nf, hdrs_of_nf, status_of_nf, body_of_nf, wrote_nf.
  unfold nf, squash, code_of. cbn [st_evs]. destruct s as [c|]; cbn [Z.eqb]; destruct (existsb is_write ws); reflexivity. Qed.

(* ---------- the client's view of a normal form ---------- *)
Lemma client_ws ws : forall st hs body fl,
  client (map ev_of ws) true st hs body fl =
  {| v_hijacked := false; v_status := st; v_hdrs := hs; v_body := body ++ bodies ws; v_flushes := fl + nflush ws |}.
Proof. induction ws as [|[bs|] ws IH]; intros st hs body fl; cbn [map ev_of client].
  - cbn. rewrite app_nil_r, Z.add_0_r. reflexivity.
  - rewrite IH. cbn [bodies flat_map]. rewrite app_assoc. unfold nflush. cbn. reflexivity.
  - rewrite IH. cbn [bodies flat_map app]. unfold nflush. cbn [filter is_write negb length]. f_equal. lia. Qed.

Lemma client_view_nf hs s ws :
  client_view (nf hs s ws) =
  {| v_hijacked := false; v_status := match s with Some c => c | None => 200 end; v_hdrs := hs;
     v_body := bodies ws; v_flushes := nflush ws |}.
Proof. unfold client_view, nf.
  assert (H : forall acc, client (map (fun kv => SetHdr (fst kv) (snd kv)) hs ++ st_evs s ++ map ev_of ws) false 0 acc [] 0 =
          {| v_hijacked := false; v_status := match s with Some c => c | None => 200 end; v_hdrs := acc ++ hs;
             v_body := bodies ws; v_flushes := nflush ws |}).
  { induction hs as [|[k v] hs IH]; intros acc; cbn [map app client fst snd].
    - rewrite app_nil_r. destruct s as [c|]; cbn [st_evs app client].
      + rewrite client_ws. reflexivity.
      + destruct ws as [|[bs|] ws]; cbn [map ev_of client]; [reflexivity| |].
        * rewrite client_ws. reflexivity.
        * rewrite client_ws. cbn [bodies flat_map app]. unfold nflush. cbn [filter is_write negb length]. f_equal. lia.
    - rewrite IH, <- app_assoc. reflexivity. }
  apply (H []). Qed.

(* ---------- layers on normal forms ---------- *)
Definition passive (l : layer) : Prop := intervenes l && can_intervene (lkind l) = false.

Definition own_hdrs (l : layer) : list (Z * Z) :=
  match lkind l with KRR | KReb => if sticky l then [(cookie_key, 0)] else [] | _ => [] end.

Lemma own_nf l hs s ws : own l ++ nf hs s ws = nf (own_hdrs l ++ hs) s ws.
Proof. unfold own, own_hdrs, nf. destruct (lkind l); try reflexivity; destruct (sticky l); reflexivity. Qed.

(* effect of a passive stack on the (headers, status, writes) of the inner response *)
Fixpoint cookies (st : list layer) : list (Z * Z) :=
  match st with [] => [] | l :: r => own_hdrs l ++ cookies r end.
Definition has_buffer (st : list layer) : bool := existsb (fun l => is_buffer (lkind l)) st.

Lemma squash_bodies ws : bodies (squash ws) = bodies ws.
Proof. unfold squash. destruct (existsb is_write ws) eqn:E; cbn; [apply app_nil_r|].
  induction ws as [|[bs|] ws IH]; cbn in *; [reflexivity|discriminate|auto]. Qed.

Lemma squash_filter ws : squash (filter is_write ws) = squash ws.
Proof. unfold squash. assert (E : existsb is_write (filter is_write ws) = existsb is_write ws).
  { induction ws as [|[bs|] ws IH]; cbn; auto. }
  assert (B : bodies (filter is_write ws) = bodies ws).
  { clear E. induction ws as [|[bs|] ws IH]; cbn; [reflexivity|f_equal; exact IH|exact IH]. }
  rewrite E, B. reflexivity. Qed.

Definition st_val (s : option Z) : Z := match s with Some x => x | None => 200 end.
Lemma code_of_val s : code_of s = if st_val s =? 0 then 200 else st_val s.
Proof. destruct s as [x|]; reflexivity. Qed.
Lemma code_of_nz s : code_of s <> 0.
Proof. rewrite code_of_val. destruct (Z.eqb_spec (st_val s) 0); lia. Qed.

(* a passive stack over a well-formed handler: one invocation and a normal-form trace whose view is the handler's *)
Lemma serve_passive st : Forall passive st -> forall c hs s ws,
  exists s' ws',
    serve st c (nf_handler hs s ws) = (nf (cookies st ++ hs) s' ws', 1) /\
    st_val s' = (if has_buffer st then code_of s else st_val s) /\
    bodies ws' = bodies ws /\
    (has_buffer st = false -> ws' = (if flush_ok c then ws else filter is_write ws)).
Proof. induction 1 as [|l st Hl _ IH]; intros c hs s ws.
  - cbn [serve cookies app has_buffer existsb]. rewrite run_handler_nf. eexists _, _. split; [reflexivity|].
    split; [reflexivity|]. split; [|auto].
    destruct (flush_ok c); [reflexivity|]. induction ws as [|[bs|] ws IHw]; cbn; [reflexivity|f_equal; exact IHw|exact IHw].
  - cbn [serve]. unfold passive in Hl. rewrite Hl.
    destruct (IH (caps_through (lkind l) c) hs s ws) as (s1 & ws1 & E & Hs & Hb & Hf). rewrite E.
    unfold transform, has_buffer. cbn [existsb cookies]. fold (has_buffer st).
    destruct (is_buffer (lkind l)) eqn:Eb; cbn [orb].
    + rewrite buffered_nf, own_nf, <- app_assoc. eexists _, _. split; [reflexivity|].
      split. { cbn [st_val]. rewrite (code_of_val s1), Hs. destruct (has_buffer st).
               - pose proof (code_of_nz s). destruct (Z.eqb_spec (code_of s) 0); [contradiction|reflexivity].
               - symmetry. apply code_of_val. }
      split; [rewrite squash_bodies; exact Hb|discriminate].
    + rewrite own_nf, <- app_assoc. eexists _, _. split; [reflexivity|]. split; [exact Hs|]. split; [exact Hb|].
      intros Hnb. rewrite (Hf Hnb). unfold caps_through. rewrite Eb. reflexivity. Qed.

(* ---------- transparency ---------- *)
Definition handler_hdrs (hs : list (Z * Z)) : list (Z * Z) := filter (fun kv => fst kv <? 1000) hs.
Definition any_sticky (st : list layer) : bool :=
  existsb (fun l => match lkind l with KRR | KReb => sticky l | _ => false end) st.

Lemma cookies_spec st : handler_hdrs (cookies st) = [] /\ has_cookie (cookies st) = zbool (any_sticky st).
Proof. induction st as [|l st [IH1 IH2]]; [split; reflexivity|]. cbn [cookies any_sticky existsb].
  unfold handler_hdrs, has_cookie in *. rewrite filter_app, existsb_app, IH1.
  unfold own_hdrs. destruct (lkind l); cbn; try (split; [reflexivity|exact IH2]);
  destruct (sticky l); cbn; split; try reflexivity; try exact IH2. Qed.

(* the response headers in full: every header line the handler added (a Set-Cookie of its own included), in order,
   preceded by exactly the affinity cookies of the sticky balancers of the stack *)
Theorem transparent_hdrs st cn hs s ws :
  flush_ok cn = true -> Forall passive st ->
  let h := nf_handler hs s ws in
  v_hdrs (client_view (fst (serve st cn h))) = cookies st ++ v_hdrs (client_view (run_handler cn h)) /\
  n_cookies (cookies st) = Z.of_nat (length (filter (fun l => match lkind l with KRR | KReb => sticky l | _ => false end) st)).
Proof. intros Hcn Hp. cbn zeta. split.
  - destruct (serve_passive st Hp cn hs s ws) as (s' & ws' & E & _). rewrite E. cbn [fst].
    rewrite run_handler_nf. rewrite Hcn. rewrite !client_view_nf. reflexivity.
  - clear. unfold n_cookies. f_equal. induction st as [|l st IH]; [reflexivity|]. cbn [cookies filter].
    rewrite filter_app, app_length, IH. unfold own_hdrs. destruct (lkind l); cbn; try reflexivity; destruct (sticky l); reflexivity. Qed.

Theorem transparent st cn hs s ws :
  flush_ok cn = true ->
  Forall passive st -> (forall kv, In kv hs -> fst kv < 1000) -> (forall c, s = Some c -> c <> 0) ->
  let h := nf_handler hs s ws in
  let v := client_view (fst (serve st cn h)) in
  let v0 := client_view (run_handler cn h) in
  snd (serve st cn h) = 1 /\
  v_hijacked v = false /\ v_hijacked v0 = false /\
  v_status v = v_status v0 /\ v_body v = v_body v0 /\
  handler_hdrs (v_hdrs v) = v_hdrs v0 /\
  has_cookie (v_hdrs v) = zbool (any_sticky st) /\
  (has_buffer st = false -> v_flushes v = v_flushes v0) /\
  (has_buffer st = true -> v_flushes v <= v_flushes v0).
Proof. intros Hcn Hp Hk Hs. cbn zeta.
  destruct (serve_passive st Hp cn hs s ws) as (s' & ws' & E & Hst & Hb & Hf). rewrite E. cbn [fst snd].
  rewrite run_handler_nf. rewrite Hcn in *. rewrite !client_view_nf. cbn [v_hijacked v_status v_hdrs v_body v_flushes].
  destruct (cookies_spec st) as (C1 & C2).
  assert (Hh : handler_hdrs hs = hs).
  { unfold handler_hdrs. clear - Hk. induction hs as [|kv hs IH]; cbn; [reflexivity|].
    assert (fst kv <? 1000 = true) by (apply Z.ltb_lt, Hk; left; reflexivity). rewrite H. f_equal.
    apply IH. intros; apply Hk; right; assumption. }
  repeat split; try reflexivity.
  - change (st_val s' = st_val s). rewrite Hst. destruct (has_buffer st); [|reflexivity].
    rewrite code_of_val. destruct (Z.eqb_spec (st_val s) 0) as [E0|]; [|reflexivity].
    destruct s as [c|]; cbn in E0; [exfalso; apply (Hs c eq_refl); exact E0|discriminate].
  - exact Hb.
  - unfold handler_hdrs in *. rewrite filter_app, C1, Hh. reflexivity.
  - unfold has_cookie in *. rewrite existsb_app.
    assert (existsb (fun kv => fst kv =? cookie_key) hs = false).
    { destruct (existsb _ hs) eqn:Ex; [|reflexivity]. apply existsb_exists in Ex. destruct Ex as (kv & Hin & Hc).
      apply Z.eqb_eq in Hc. specialize (Hk kv Hin). unfold cookie_key in Hc. lia. }
    rewrite H, orb_false_r. exact C2.
  - intros Hnb. rewrite (Hf Hnb). reflexivity.
  - intros _. (* flushes can only be dropped *)
    assert (G : forall st0, Forall passive st0 -> forall c, exists s1 ws1,
               serve st0 c (nf_handler hs s ws) = (nf (cookies st0 ++ hs) s1 ws1, 1) /\ nflush ws1 <= nflush ws).
    { clear. induction 1 as [|l st0 Hl _ IH]; intros c.
      - cbn [serve cookies app]. rewrite run_handler_nf. eexists _, _. split; [reflexivity|].
        destruct (flush_ok c); [lia|]. unfold nflush. induction ws as [|[bs|] ws IHw]; cbn in *; lia.
      - cbn [serve]. unfold passive in Hl. rewrite Hl. destruct (IH (caps_through (lkind l) c)) as (s1 & ws1 & E & Hle). rewrite E.
        unfold transform. cbn [cookies]. destruct (is_buffer (lkind l)).
        + rewrite buffered_nf, own_nf, <- app_assoc. eexists _, _. split; [reflexivity|].
          unfold squash. destruct (existsb is_write ws1); unfold nflush in *; cbn; lia.
        + rewrite own_nf, <- app_assoc. eexists _, _. split; [reflexivity|exact Hle]. }
    destruct (G st Hp cn) as (s1 & ws1 & E1 & Hle). rewrite E in E1. injection E1 as E1.
    assert (nflush ws' = nflush ws1).
    { unfold nf in E1. apply app_inv_head in E1. 
      assert (L : forall a b, st_evs a ++ map ev_of ws' = st_evs b ++ map ev_of ws1 -> map ev_of ws' = map ev_of ws1).
      { intros a b. destruct a, b; cbn; intros Q; try (injection Q; auto); auto.
        - destruct ws1 as [|[?|] ?]; cbn in Q; discriminate.
        - destruct ws' as [|[?|] ?]; cbn in Q; discriminate. }
      apply L in E1. unfold nflush.
      assert (M : forall a b, map ev_of a = map ev_of b -> a = b).
      { induction a as [|[x|] a IHa]; destruct b as [|[y|] b]; cbn; intros Q; try discriminate; try reflexivity;
        injection Q; intros; subst; f_equal; auto. }
      rewrite (M _ _ E1). reflexivity. }
    lia. Qed.

(* a handler that hijacks the connection gets it through every passive stack *)
Definition sethdrs (hs : list (Z * Z)) : list wev := map (fun kv => SetHdr (fst kv) (snd kv)) hs.

Lemma has_hijack_sethdrs hs : has_hijack (sethdrs hs ++ [Hijack]) = true.
Proof. induction hs as [|kv hs IH]; cbn; auto. Qed.

Lemma client_sethdrs_hijack hs : forall acc, v_hijacked (client (sethdrs hs ++ [Hijack]) false 0 acc [] 0) = true.
Proof. induction hs as [|kv hs IH]; intros acc; cbn; [reflexivity|apply IH]. Qed.

Theorem transparent_hijack st : Forall passive st ->
  snd (serve st full [HHijack]) = 1 /\ v_hijacked (client_view (fst (serve st full [HHijack]))) = true.
Proof. intros Hp.
  assert (G : forall st0, Forall passive st0 -> forall c, hijack_ok c = true ->
            exists hs, serve st0 c [HHijack] = (sethdrs hs ++ [Hijack], 1)).
  { induction 1 as [|l st0 Hl _ IH]; intros c Hc; cbn [serve run_handler].
    - rewrite Hc. exists []. reflexivity.
    - unfold passive in Hl. rewrite Hl.
      destruct (IH (caps_through (lkind l) c)) as (hs & E); [unfold caps_through; destruct (is_buffer (lkind l)); exact Hc|].
      rewrite E.
      assert (O : own l = sethdrs (own_hdrs l)).
      { unfold own, own_hdrs, sethdrs. destruct (lkind l); try reflexivity; destruct (sticky l); reflexivity. }
      rewrite O. unfold transform. destruct (is_buffer (lkind l)).
      + unfold buffered. rewrite has_hijack_sethdrs. exists (own_hdrs l). reflexivity.
      + exists (own_hdrs l ++ hs). unfold sethdrs. rewrite map_app, <- app_assoc. reflexivity. }
  destruct (G st Hp full eq_refl) as (hs & E). rewrite E. cbn [fst snd]. split; [reflexivity|].
  unfold client_view. apply client_sethdrs_hijack. Qed.

(* ... also when the handler has set headers and written a status through its writer first (a tunnel's 200, an upgrade's
   101): whatever of that has reached the connection, the handler gets the connection *)
Definition is_head_act (a : hact) : bool := match a with HSet _ _ | HStatus _ => true | _ => false end.
Definition is_head_ev (e : wev) : bool := match e with SetHdr _ _ | WriteHeader _ => true | _ => false end.

Lemma has_hijack_head p : forallb is_head_ev p = true -> has_hijack (p ++ [Hijack]) = true.
Proof. induction p as [|e p IH]; cbn; [reflexivity|]. destruct e; cbn; try discriminate; auto. Qed.

Lemma client_head_hijack p : forallb is_head_ev p = true ->
  forall cm s acc, v_hijacked (client (p ++ [Hijack]) cm s acc [] 0) = true.
Proof. induction p as [|e p IH]; intros Hp cm s acc; cbn [app client]; [reflexivity|].
  destruct e; cbn in Hp; try discriminate.
  - apply IH, Hp.
  - destruct cm; apply IH, Hp.
Qed.

Lemma run_handler_head c pre : forallb is_head_act pre = true -> hijack_ok c = true ->
  exists p, run_handler c (pre ++ [HHijack]) = p ++ [Hijack] /\ forallb is_head_ev p = true.
Proof. induction pre as [|a pre IH]; intros Hp Hc; cbn [app run_handler].
  - rewrite Hc. exists []. auto.
  - destruct a; cbn in Hp; try discriminate; destruct (IH Hp Hc) as (p & E & F); rewrite E.
    + exists (SetHdr k v :: p). auto.
    + exists (WriteHeader c0 :: p). auto.
Qed.

Lemma sethdrs_head hs : forallb is_head_ev (sethdrs hs) = true.
Proof. induction hs; cbn; auto. Qed.

Theorem transparent_hijack_after_head st pre : Forall passive st -> forallb is_head_act pre = true ->
  snd (serve st full (pre ++ [HHijack])) = 1 /\
  v_hijacked (client_view (fst (serve st full (pre ++ [HHijack])))) = true.
Proof. intros Hp Hpre.
  assert (G : forall st0, Forall passive st0 -> forall c, hijack_ok c = true ->
            exists p, serve st0 c (pre ++ [HHijack]) = (p ++ [Hijack], 1) /\ forallb is_head_ev p = true).
  { induction 1 as [|l st0 Hl _ IH]; intros c Hc; cbn [serve].
    - destruct (run_handler_head c pre Hpre Hc) as (p & E & F). rewrite E. exists p. auto.
    - unfold passive in Hl. rewrite Hl.
      destruct (IH (caps_through (lkind l) c)) as (p & E & F); [unfold caps_through; destruct (is_buffer (lkind l)); exact Hc|].
      rewrite E.
      assert (O : own l = sethdrs (own_hdrs l)).
      { unfold own, own_hdrs, sethdrs. destruct (lkind l); try reflexivity; destruct (sticky l); reflexivity. }
      rewrite O. unfold transform. destruct (is_buffer (lkind l)).
      + unfold buffered. rewrite (has_hijack_head p F). exists (sethdrs (own_hdrs l)). split; [reflexivity|apply sethdrs_head].
      + exists (sethdrs (own_hdrs l) ++ p). rewrite <- app_assoc. split; [reflexivity|].
        rewrite forallb_app, sethdrs_head, F. reflexivity. }
  destruct (G st Hp full eq_refl) as (p & E & F). rewrite E. cbn [fst snd]. split; [reflexivity|].
  unfold client_view. apply client_head_hijack, F. Qed.

(* on a connection that cannot be hijacked (HTTP/2) the handler's hijack attempt fails through every stack, and the
   handler's fallback response is served exactly as if it had not tried *)
Theorem hijack_unavailable st : forall c h, hijack_ok c = false -> serve st c (HHijack :: h) = serve st c h.
Proof. induction st as [|l st IH]; intros c h Hc; cbn [serve run_handler]; [rewrite Hc; reflexivity|].
  rewrite IH; [reflexivity|]. unfold caps_through. destruct (is_buffer (lkind l)); exact Hc. Qed.

(* ---------- decisiveness ---------- *)
(* the breaker's fallback is configurable: the library's response fallback (503 here) or its redirect fallback (302) *)
Definition documented_status (l : layer) : Z :=
  match lkind l with KConn | KRate => 429 | KBreaker => if sticky l then 302 else 503 | KRR | KReb => 500 | KBuffer => 413 | _ => 0 end.

Lemma answer_nf l : can_intervene (lkind l) = true ->
  exists hs bs, answer l = nf hs (Some (documented_status l)) [Some bs] /\ bs <> [].
Proof. unfold answer, documented_status. destruct (lkind l); cbn; intros H; try discriminate.
  - exists [], [1]. split; [reflexivity|discriminate].
  - exists [(1001, 0); (1002, 0)], [2]. split; [reflexivity|discriminate].
  - destruct (sticky l).
    + exists [(1003, 0)], [6]. split; [reflexivity|discriminate].
    + exists [], [3]. split; [reflexivity|discriminate].
  - exists [], [4]. split; [reflexivity|discriminate].
  - exists [], [4]. split; [reflexivity|discriminate].
  - exists [], [5]. split; [reflexivity|discriminate]. Qed.

(* the first intervening layer answers with its documented status; the handler is not invoked; the layers outside
   it pass that answer on unchanged *)
Theorem decisive pre l post h :
  Forall passive pre -> intervenes l = true -> can_intervene (lkind l) = true ->
  snd (serve (pre ++ l :: post) full h) = 0 /\
  let v := client_view (fst (serve (pre ++ l :: post) full h)) in
  v_hijacked v = false /\ v_status v = documented_status l /\ v_body v <> [].
Proof. intros Hp Hi Hc.
  destruct (answer_nf l Hc) as (hs0 & bs0 & Ea & Hbs).
  assert (G : forall pre0, Forall passive pre0 -> forall c, exists hs s ws,
            serve (pre0 ++ l :: post) c h = (nf hs s ws, 0) /\ st_val s = documented_status l /\ bodies ws = bs0).
  { induction 1 as [|x pre0 Hx _ IH]; intros c; cbn [app serve].
    - rewrite Hi, Hc. cbn [andb]. rewrite Ea. eexists _, _, _. split; [reflexivity|]. split; [reflexivity|]. cbn. apply app_nil_r.
    - unfold passive in Hx. rewrite Hx. destruct (IH (caps_through (lkind x) c)) as (hs & s & ws & E & Hs & Hb). rewrite E.
      unfold transform. destruct (is_buffer (lkind x)).
      + rewrite buffered_nf, own_nf. eexists _, _, _. split; [reflexivity|]. split; [|rewrite squash_bodies; exact Hb].
        cbn [st_val]. rewrite code_of_val, Hs. unfold documented_status. destruct (lkind l); cbn in *; try discriminate; try reflexivity. destruct (sticky l); reflexivity.
      + rewrite own_nf. eexists _, _, _. split; [reflexivity|]. split; [exact Hs|exact Hb]. }
  destruct (G pre Hp full) as (hs & s & ws & E & Hs & Hb). rewrite E. cbn [fst snd]. split; [reflexivity|].
  rewrite client_view_nf. cbn [v_hijacked v_status v_body]. split; [reflexivity|]. split; [exact Hs|]. rewrite Hb. exact Hbs. Qed.
