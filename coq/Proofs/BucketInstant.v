(* A bucket at one instant: k unit requests issued at the same reading of the clock are admitted exactly as long as
   tokens are left -- min(k, available) of them -- and each admission takes exactly one token. *)
From Oxy Require Import Base.Prelude Model.Bucket.
Open Scope Z_scope.

Fixpoint admits (now : Z) (k : nat) (b : bucket) : Z * bucket :=
  match k with
  | O => (0, b)
  | S k' => let '(o, b1) := consume now 1 b in
            let '(n, b2) := admits now k' b1 in
            ((match o with Admit => 1 | _ => 0 end) + n, b2)
  end.

Definition settled (now : Z) (b : bucket) : Prop :=
  0 < tpt b /\ 0 <= now - last b < tpt b /\ 0 <= avail b <= burst b /\ 1 <= burst b.

Lemma refresh_settled now b : settled now b -> refresh now b = b.
Proof.
  intros (Ht & Hl & Ha & Hb). unfold refresh.
  destruct (Z.eqb_spec (tpt b) 0) as [E|_]; [lia|].
  rewrite (Z.div_small (now - last b) (tpt b)) by lia. rewrite Z.add_0_r, Z.eqb_refl.
  destruct (Z.ltb_spec (burst b) (avail b)); [lia|reflexivity].
Qed.

Theorem admits_exactly now : forall k b, settled now b ->
  fst (admits now k b) = Z.min (Z.of_nat k) (avail b) /\
  avail (snd (admits now k b)) = avail b - Z.min (Z.of_nat k) (avail b) /\
  settled now (snd (admits now k b)).
Proof.
  induction k as [|k IH]; intros b H.
  - cbn [admits fst snd]. pose proof H as (Ht & Hl & Ha & Hb). split; [lia|]. split; [lia|exact H].
  - cbn [admits]. unfold consume. rewrite (refresh_settled now b H).
    pose proof H as (Ht & Hl & Ha & Hb).
    cbn [burst with_consumed avail tpt last].
    destruct (Z.ltb_spec (burst b) 1) as [?|_]; [lia|].
    destruct (Z.ltb_spec (avail b) 1) as [Hz|Hp].
    + assert (S1 : settled now (with_consumed b 0)) by (unfold settled; cbn; repeat split; lia).
      destruct (IH _ S1) as (I1 & I2 & I3). cbn [avail with_consumed] in I1, I2.
      destruct (admits now k (with_consumed b 0)) as [n b2]. cbn [fst snd] in *.
      split; [lia|]. split; [lia|exact I3].
    + assert (S1 : settled now (with_consumed (with_avail (with_consumed b 0) (avail b - 1)) 1))
        by (unfold settled; cbn; repeat split; lia).
      destruct (IH _ S1) as (I1 & I2 & I3). cbn [avail with_consumed with_avail] in I1, I2.
      destruct (admits now k (with_consumed (with_avail (with_consumed b 0) (avail b - 1)) 1)) as [n b2]. cbn [fst snd] in *.
      split; [lia|]. split; [lia|exact I3].
Qed.
