(* One attempt, the attempt loop and ServeHTTP as a whole. *)
From Oxy Require Import Base.Prelude Model.Multibuf Model.Buffer Proofs.BufferProofsA Proofs.BufferProofsB.
Open Scope Z_scope.

(* ---- what one attempt decides, as a function of its own events, the attempt number and the method ---- *)
Definition eff_code (a : abw) : Z := if a_code a =? 0 then 200 else a_code a.

Definition exit_cond (c : cfg) (method k code : Z) : bool :=
  (match retry c with None => true | Some _ => false end || (DefaultMaxRetryAttempts <? k))
  || negb (match retry c with
           | Some p => eval p {| c_attempt := k; c_code := code; c_method := method |}
           | None => false end).

Definition final_view (method : Z) (a : abw) : cview :=
  {| v_status := eff_code a; v_hdr := a_hdr a;
     v_body := if a_wrote a && expectBody (eff_code a) (a_hdr a) method then a_data a else [] |}.

Definition attempt_abs (c : cfg) (evs : list event) : abw := bw_run (maxResp c) abs0 evs.

Definition attempt_outcome (c : cfg) (method k : Z) (evs : list event) : outcome :=
  let a := attempt_abs c evs in
  if a_hij a then Done hijack_view
  else if a_werr a then Done (err_view ErrOther)
  else if exit_cond c method k (eff_code a) then Done (final_view method a) else Again.

Definition zseq (k : Z) (n : nat) : list Z := map (fun i => k + Z.of_nat i) (seq 0 n).
Lemma zseq_S k n : zseq k (S n) = k :: zseq (k + 1) n.
Proof. unfold zseq. cbn [seq map]. f_equal; [lia|]. rewrite <- seq_shift, map_map. apply map_ext. intros; lia. Qed.
Lemma zseq_length k n : length (zseq k n) = n.
Proof. unfold zseq. rewrite map_length, seq_length. reflexivity. Qed.
Lemma zseq_In k n j : In j (zseq k n) <-> k <= j < k + Z.of_nat n.
Proof. unfold zseq. rewrite in_map_iff. split.
  - intros (i & <- & Hi). apply in_seq in Hi. lia.
  - intros H. exists (Z.to_nat (j - k)). split; [lia|]. apply in_seq. lia. Qed.

(* number of attempts made by the loop started at attempt k *)
Fixpoint ndone (c : cfg) (m : Z) (scripts : list (list event)) (fuel : nat) (k : Z) : option nat :=
  match fuel with
  | O => None
  | S f =>
      match attempt_outcome c m k (script_of scripts k) with
      | Done _ => Some 1%nat
      | Again => option_map S (ndone c m scripts f (k + 1))
      end
  end.

(* the attempts before the last one asked for a retry; after attempt 10 the loop always ends *)
Lemma ndone_again c m scripts fuel : forall k cnt, ndone c m scripts fuel k = Some cnt ->
  forall j, k <= j < k + Z.of_nat cnt - 1 -> attempt_outcome c m j (script_of scripts j) = Again.
Proof. induction fuel as [|f IH]; intros k cnt H j Hj; cbn in H; [discriminate|].
  destruct (attempt_outcome c m k (script_of scripts k)) eqn:E.
  - inversion H; subst. lia.
  - destruct (ndone c m scripts f (k + 1)) as [n|] eqn:En; [|discriminate]. inversion H; subst.
    destruct (Z.eq_dec j k) as [->|Hne]; [exact E|]. apply (IH (k + 1) n En). lia. Qed.

Lemma outcome_after_10 c m k evs : 10 < k -> attempt_outcome c m k evs <> Again.
Proof. intros H. unfold attempt_outcome. destruct (a_hij _); [discriminate|]. destruct (a_werr _); [discriminate|].
  unfold exit_cond, DefaultMaxRetryAttempts. destruct (Z.ltb_spec 10 k); [|lia].
  rewrite orb_true_r. cbn. discriminate. Qed.

Lemma ndone_bound c m scripts fuel : forall k, 12 <= k + Z.of_nat fuel -> k <= 11 ->
  exists cnt, ndone c m scripts fuel k = Some cnt /\ (1 <= cnt)%nat /\ k + Z.of_nat cnt - 1 <= 11.
Proof. induction fuel as [|f IH]; intros k H1 H2; [cbn in H1; lia|]. cbn [ndone].
  destruct (attempt_outcome c m k (script_of scripts k)) eqn:E.
  - exists 1%nat. split; [reflexivity|]. lia.
  - destruct (Z.eq_dec k 11) as [->|Hne].
    + exfalso. apply (outcome_after_10 c m 11 (script_of scripts 11)); [lia|exact E].
    + destruct (IH (k + 1)) as (n & I1 & I2 & I3); [lia|lia|]. exists (S n). rewrite I1. split; [reflexivity|]. lia. Qed.

Section Serve.
  Variable c : cfg.
  Variable rq : request.
  Variable hp0 : heap.
  Variable body : bytes.
  Variable names0 : list Z.
  Variable scripts : list (list event).
  Hypothesis Hurl : (q_url rq < length hp0)%nat.
  Hypothesis Hhdr : (q_hdr rq < length hp0)%nat.

  (* what every invocation must observe *)
  Definition exp_rec (evs : list event) : invrec :=
    {| i_method := q_method rq; i_url := as_url (hread hp0 (q_url rq)); i_hdr := as_hdr (hread hp0 (q_hdr rq));
       i_cl := blen body; i_te := []; i_read := read_spec evs body |}.

  Record post_inv (st : lst) : Prop := {
    pi_heap : firstn (length hp0) (l_heap st) = hp0;
    pi_len : (length hp0 <= length (l_heap st))%nat;
    pi_body : match l_body st with Some r => r_all r = body /\ r_clean r = None | None => body = [] end;
    pi_wf : fs_wf (l_fs st);
    pi_defers : forall fs', fnames fs' = fnames (l_fs st) -> fnames (run_defers (l_defers st) fs') = names0
  }.

  Record pre_inv (st : lst) (o : request) : Prop := {
    pr_post : post_inv st;
    pr_rest : match l_body st with Some r => r_rest r = body | None => True end;
    pr_method : q_method o = q_method rq;
    pr_cl : q_cl o = blen body;
    pr_te : q_te o = [];
    pr_url : (length hp0 <= q_url o)%nat;
    pr_hdr : (length hp0 <= q_hdr o)%nat;
    pr_urlv : hread (l_heap st) (q_url o) = OUrl (as_url (hread hp0 (q_url rq)));
    pr_hdrv : hread (l_heap st) (q_hdr o) = OHdr (as_hdr (hread hp0 (q_hdr rq)))
  }.

  Lemma one_attempt_spec st o k evs : pre_inv st o ->
    fst (one_attempt c rq o k evs st) = attempt_outcome c (q_method rq) k evs /\
    l_invs (snd (one_attempt c rq o k evs st)) = exp_rec evs :: l_invs st /\
    post_inv (snd (one_attempt c rq o k evs st)).
  Proof. intros [[P1 P2 P3 P4 P5] Q1 Q2 Q3 Q4 Q5 Q6 Q7 Q8].
    unfold one_attempt.
    set (b0 := {| b_code := 0; b_hdr := []; b_wrote := false; b_werr := false; b_hij := false;
                  b_w := w_new (memResp c) (maxResp c) |}).
    set (s0 := {| h_bw := b0; h_body := l_body st; h_heap := l_heap st; h_fs := l_fs st; h_read := [] |}).
    set (s := run_events o s0 evs).
    set (base := fnames (l_fs st)).
    (* response side *)
    assert (B : brel base (maxResp c) (h_bw s) (h_fs s) (attempt_abs c evs)).
    { apply run_events_abs. constructor; cbn; auto; try discriminate. apply winv_new; auto. }
    (* heap *)
    destruct (run_events_heap o evs s0 (length hp0) Q5 Q6) as [G1 G2]. fold s in G1, G2. cbn in G1, G2.
    (* request body *)
    assert (R : h_read s = read_spec evs body /\
                match h_body s with Some r => r_all r = body /\ r_clean r = None | None => body = [] end).
    { destruct (l_body st) as [r|] eqn:Eb.
      - destruct (run_events_read_some o evs s0 r eq_refl eq_refl) as (A & r' & A1 & A2 & A3). fold s in A, A1.
        rewrite Q1 in A. split; [exact A|]. rewrite A1. destruct P3 as [P3a P3b]. rewrite A2, A3. auto.
      - destruct (run_events_read_none o evs s0 eq_refl) as (A & A1). fold s in A, A1.
        subst body. rewrite read_spec_nil. rewrite A1. auto. }
    destruct R as [R1 R2].
    (* the record *)
    assert (Erec : {| i_method := q_method o; i_url := as_url (hread (l_heap st) (q_url o));
                      i_hdr := as_hdr (hread (l_heap st) (q_hdr o)); i_cl := q_cl o; i_te := q_te o; i_read := h_read s |}
                   = exp_rec evs).
    { unfold exp_rec. rewrite Q2, Q3, Q4, Q7, Q8, R1. reflexivity. }
    cbn [i_method i_url i_hdr i_cl i_te]. rewrite Erec.
    (* the deferred calls of this attempt remove what the attempt created *)
    assert (Post : forall ds,
              (forall fs', fnames fs' = fnames (h_fs s) -> fnames (run_defers ds fs') = base) ->
              post_inv {| l_fs := h_fs s; l_heap := h_heap s; l_body := h_body s; l_defers := ds ++ l_defers st;
                          l_invs := exp_rec evs :: l_invs st |}).
    { intros ds Hds. constructor; cbn.
      - rewrite G1. exact P1.
      - rewrite G2. exact P2.
      - exact R2.
      - exact (wi_wf _ _ _ _ (br_w _ _ _ _ _ B)).
      - intros fs' Hfs. rewrite run_defers_app. apply P5. apply Hds, Hfs. }
    assert (D1 : forall fs', fnames fs' = fnames (h_fs s) -> fnames (run_defers [DCloseBW (b_w (h_bw s))] fs') = base).
    { intros fs' Hfs. cbn [run_defers fold_left]. eapply close_bw_names; [exact (br_w _ _ _ _ _ B)|exact Hfs]. }
    destruct B as [B1 B2 B3 B4 B5 B6 B7 B8].
    unfold attempt_outcome. fold (attempt_abs c evs). set (a := attempt_abs c evs) in *.
    rewrite B5. destruct (a_hij a) eqn:Ehij.
    { cbn [fst snd l_invs]. split; [reflexivity|]. split; [reflexivity|]. apply Post, D1. }
    cbn [b_werr b_code b_hdr b_wrote b_w]. rewrite B4. destruct (a_werr a) eqn:Ewerr.
    { cbn [fst snd l_invs]. split; [reflexivity|]. split; [reflexivity|]. apply Post, D1. }
    rewrite B1, B2, B3, Q2. fold (eff_code a).
    destruct (a_wrote a && expectBody (eff_code a) (a_hdr a) (q_method rq)) eqn:Ewe.
    - (* a reader is taken *)
      pose proof (w_reader_spec base _ _ _ B7) as W.
      destruct (w_reader (b_w (h_bw s))) as [w' [r|]] eqn:Er.
      + destruct W as (W1 & W2 & W3 & W4 & W5 & W6).
        assert (D2 : forall fs', fnames fs' = fnames (h_fs s) -> fnames (run_defers [DCloseRdr r; DCloseBW w'] fs') = base).
        { intros fs' Hfs. cbn [run_defers fold_left]. rewrite close_bw_called by exact W2.
          cbn [run_defer]. rewrite (mr_close_names r fs' (h_fs s) Hfs). exact W5. }
        fold (exit_cond c (q_method rq) k (eff_code a)).
        destruct (exit_cond c (q_method rq) k (eff_code a)); cbn [fst snd l_invs].
        * split; [|split; [reflexivity|apply Post, D2]].
          unfold final_view. rewrite Ewe, W4. reflexivity.
        * split; [reflexivity|]. split; [reflexivity|apply Post, D2].
      + exfalso. destruct W as [_ W]. apply andb_true_iff in Ewe. destruct Ewe as [Ew _]. exact (B8 Ew eq_refl W).
    - fold (exit_cond c (q_method rq) k (eff_code a)).
      destruct (exit_cond c (q_method rq) k (eff_code a)); cbn [fst snd l_invs].
      * split; [|split; [reflexivity|apply Post, D1]].
        unfold final_view. rewrite Ewe. reflexivity.
      * split; [reflexivity|]. split; [reflexivity|apply Post, D1].
  Qed.

  Lemma pre_of_post st' :
    post_inv st' ->
    let body' := match l_body st' with Some r => Some (mr_seek0 r) | None => None end in
    let '(hp', o') := copyRequest (l_heap st') rq (blen body) in
    pre_inv {| l_fs := l_fs st'; l_heap := hp'; l_body := body'; l_defers := l_defers st'; l_invs := l_invs st' |} o'.
  Proof. intros [P1 P2 P3 P4 P5]. cbn zeta.
    assert (Hu : (q_url rq < length (l_heap st'))%nat) by lia.
    assert (Hh : (q_hdr rq < length (l_heap st'))%nat) by lia.
    pose proof (copyRequest_spec (l_heap st') rq (blen body) Hu Hh) as C.
    destruct (copyRequest (l_heap st') rq (blen body)) as [hp' o'].
    destruct C as (C1 & C2 & C3 & C4 & C5 & C6 & C7 & C8 & C9).
    assert (Hpre : firstn (length hp0) hp' = hp0).
    { transitivity (firstn (length hp0) (firstn (length (l_heap st')) hp')).
      - rewrite firstn_firstn, Nat.min_l by lia. reflexivity.
      - rewrite C2. exact P1. }
    assert (Hrd : forall l, (l < length hp0)%nat -> hread (l_heap st') l = hread hp0 l).
    { intros l Hl. rewrite <- (hread_firstn (l_heap st') (length hp0) l Hl). rewrite P1. reflexivity. }
    constructor; cbn [l_fs l_heap l_body l_defers l_invs].
    - constructor; cbn [l_fs l_heap l_body l_defers l_invs]; auto; try lia.
      destruct (l_body st') as [r|]; [|exact P3]. cbn. exact P3.
    - destruct (l_body st') as [r|]; [|exact I]. cbn. apply P3.
    - exact C3.
    - exact C4.
    - exact C5.
    - lia.
    - lia.
    - rewrite C8, Hrd by exact Hurl. reflexivity.
    - rewrite C9, Hrd by exact Hhdr. reflexivity.
  Qed.

  Lemma attempts_spec fuel : forall k st o, pre_inv st o ->
    match attempts fuel c rq o (blen body) scripts k st with
    | LDone v st' =>
        exists cnt, ndone c (q_method rq) scripts fuel k = Some cnt /\ (1 <= cnt)%nat /\
          attempt_outcome c (q_method rq) (k + Z.of_nat cnt - 1) (script_of scripts (k + Z.of_nat cnt - 1)) = Done v /\
          post_inv st' /\
          l_invs st' = rev (map (fun j => exp_rec (script_of scripts j)) (zseq k cnt)) ++ l_invs st
    | OutOfFuel => ndone c (q_method rq) scripts fuel k = None
    end.
  Proof. induction fuel as [|f IH]; intros k st o Hpre; cbn [attempts ndone]; [reflexivity|].
    destruct (one_attempt_spec st o k (script_of scripts k) Hpre) as (A1 & A2 & A3).
    destruct (one_attempt c rq o k (script_of scripts k) st) as [oc st'] eqn:E. cbn [fst snd] in *.
    rewrite <- A1. destruct oc as [v|].
    - exists 1%nat. split; [reflexivity|]. split; [lia|].
      replace (k + Z.of_nat 1 - 1) with k by lia. split; [symmetry; exact A1|]. split; [exact A3|].
      rewrite A2. cbn. replace (k + 0) with k by lia. reflexivity.
    - pose proof (pre_of_post st' A3) as Hn. cbn zeta in Hn.
      destruct (copyRequest (l_heap st') rq (blen body)) as [hp' o'].
      specialize (IH (k + 1) _ o' Hn).
      destruct (attempts f c rq o' (blen body) scripts (k + 1) _) as [v st''|].
      + destruct IH as (cnt & I1 & I2 & I3 & I4 & I5). exists (S cnt). rewrite I1. split; [reflexivity|].
        split; [lia|]. replace (k + Z.of_nat (S cnt) - 1) with (k + 1 + Z.of_nat cnt - 1) by lia.
        split; [exact I3|]. split; [exact I4|].
        rewrite I5. cbn [l_invs]. rewrite A2, zseq_S. cbn [map rev]. rewrite <- app_assoc. reflexivity.
      + rewrite IH. reflexivity.
  Qed.

End Serve.

(* ------------------------------------------------------------------------------------------------ *)
(* ServeHTTP                                                                                          *)
(* ------------------------------------------------------------------------------------------------ *)
Definition over_request_limit (c : cfg) (rq : request) (body : bytes) : Prop :=
  0 < maxReq c /\ (maxReq c < q_cl rq \/ maxReq c < blen body).

Lemma serve_rejected c fs hp rq body scripts : 0 <= memReq c -> fs_wf fs ->
  over_request_limit c rq body ->
  let r := serve c fs hp rq body scripts in
  res_view r = err_view ErrMaxSize /\ res_invs r = [] /\ fnames (res_fs r) = fnames fs /\ res_heap r = hp /\
  res_fuel_ok r = true.
Proof. intros Hm Hwf [H1 H2]. cbn zeta. unfold serve, checkLimit.
  destruct (Z.leb_spec (maxReq c) 0); [lia|].
  destruct (Z.ltb_spec (maxReq c) (q_cl rq)); [cbn; auto|].
  pose proof (mb_new_ok (memReq c) (maxReq c) body fs Hm) as N.
  pose proof (mb_new_fs (memReq c) (maxReq c) body fs Hwf) as [F1 F2].
  destruct (mb_new (memReq c) (maxReq c) body fs) as [fs1 [e|rd]]; cbn [fst snd] in *.
  - destruct N as (-> & _). cbn. auto.
  - exfalso. destruct N as (N & _). apply N. lia. Qed.

Lemma serve_accepted c fs hp rq body scripts : 0 <= memReq c -> fs_wf fs ->
  (q_url rq < length hp)%nat -> (q_hdr rq < length hp)%nat ->
  ~ over_request_limit c rq body ->
  let r := serve c fs hp rq body scripts in
  exists cnt, ndone c (q_method rq) scripts 11 1 = Some cnt /\ (1 <= cnt <= 11)%nat /\
    attempt_outcome c (q_method rq) (Z.of_nat cnt) (script_of scripts (Z.of_nat cnt)) = Done (res_view r) /\
    res_invs r = map (fun j => exp_rec rq hp body (script_of scripts j)) (zseq 1 cnt) /\
    fnames (res_fs r) = fnames fs /\ firstn (length hp) (res_heap r) = hp /\ res_fuel_ok r = true.
Proof. intros Hm Hwf Hu Hh Hno. cbn zeta. unfold serve, checkLimit.
  assert (Hc : (if maxReq c <=? 0 then false else maxReq c <? q_cl rq) = false).
  { destruct (Z.leb_spec (maxReq c) 0); [reflexivity|]. destruct (Z.ltb_spec (maxReq c) (q_cl rq)); [|reflexivity].
    exfalso; apply Hno; split; [lia|left; lia]. }
  rewrite Hc.
  pose proof (mb_new_ok (memReq c) (maxReq c) body fs Hm) as N.
  pose proof (mb_new_fs (memReq c) (maxReq c) body fs Hwf) as [F1 F2].
  destruct (mb_new (memReq c) (maxReq c) body fs) as [fs1 [e|rd]]; cbn [fst snd] in *.
  { exfalso. destruct N as (_ & N1 & N2). apply Hno; split; [lia|right; lia]. }
  destruct N as (_ & N1 & N2 & N3 & N4 & _).
  rewrite N3.
  pose proof (copyRequest_spec hp rq (blen body) Hu Hh) as C.
  destruct (copyRequest hp rq (blen body)) as [hp1 o].
  destruct C as (C1 & C2 & C3 & C4 & C5 & C6 & C7 & C8 & C9).
  set (bodyv := if blen body =? 0 then None else Some rd).
  set (st0 := {| l_fs := fs1; l_heap := hp1; l_body := bodyv; l_defers := []; l_invs := [] |}).
  assert (Hpre : pre_inv rq hp body (fnames fs) st0 o).
  { constructor; cbn [st0 l_fs l_heap l_body l_defers l_invs]; auto; try lia.
    - constructor; cbn [st0 l_fs l_heap l_body l_defers l_invs]; auto; try lia.
      + unfold bodyv. destruct (Z.eqb_spec (blen body) 0) as [E|E]; [apply blen_zero, E|auto].
      + intros fs' Hf. cbn. rewrite Hf. exact F2.
    - unfold bodyv. destruct (blen body =? 0); auto. }
  pose proof (attempts_spec c rq hp body (fnames fs) scripts Hu Hh 11 1 st0 o Hpre) as A.
  destruct (ndone_bound c (q_method rq) scripts 11 1) as (cnt & B1 & B2 & B3); [lia|lia|].
  destruct (attempts 11 c rq o (blen body) scripts 1 st0) as [v st|].
  - destruct A as (cnt' & A1 & A2 & A3 & A4 & A5). rewrite B1 in A1. inversion A1; subst cnt'.
    exists cnt. split; [exact B1|]. split; [lia|]. cbn [res_view res_invs res_fs res_heap res_fuel_ok].
    replace (1 + Z.of_nat cnt - 1) with (Z.of_nat cnt) in A3 by lia.
    split; [exact A3|]. split.
    { rewrite A5. cbn [l_invs]. rewrite app_nil_r, rev_involutive. reflexivity. }
    destruct A4 as [P1 P2 P3 P4 P5]. split; [|split; [exact P1|reflexivity]].
    assert (E : fnames (run_defers (l_defers st) (l_fs st)) = fnames fs) by (apply P5; reflexivity).
    unfold bodyv. destruct (blen body =? 0); [exact E|].
    unfold mr_close. rewrite N4. exact E.
  - rewrite B1 in A. discriminate.
Qed.
