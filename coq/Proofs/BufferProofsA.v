(* Lemmas about the multibuf model: byte lists, the named-file set, New, WriterOnce. *)
From Oxy Require Import Base.Prelude Model.Multibuf.
Open Scope Z_scope.

(* ---- byte lists ---- *)
Lemma blen_nonneg b : 0 <= blen b.
Proof. unfold blen; lia. Qed.
Lemma blen_app a b : blen (a ++ b) = blen a + blen b.
Proof. unfold blen; rewrite app_length; lia. Qed.
Lemma blen_nil : blen [] = 0.
Proof. reflexivity. Qed.
Lemma blen_cons x b : blen (x :: b) = 1 + blen b.
Proof. unfold blen; cbn [length]; lia. Qed.
Lemma blen_zero b : blen b = 0 -> b = [].
Proof. destruct b; [reflexivity|rewrite blen_cons; pose proof (blen_nonneg b); lia]. Qed.

Lemma ztake_zdrop n l : ztake n l ++ zdrop n l = l.
Proof. revert n; induction l as [|x r IH]; intros n; cbn; [reflexivity|].
  destruct (n <=? 0); cbn; [reflexivity|]. f_equal; apply IH. Qed.

Lemma ztake_nonpos n l : n <= 0 -> ztake n l = [].
Proof. intros H; destruct l; cbn; [reflexivity|]. destruct (Z.leb_spec n 0); [reflexivity|lia]. Qed.
Lemma zdrop_nonpos n l : n <= 0 -> zdrop n l = l.
Proof. intros H; destruct l; cbn; [reflexivity|]. destruct (Z.leb_spec n 0); [reflexivity|lia]. Qed.

Lemma blen_ztake n l : blen (ztake n l) = Z.min (Z.max 0 n) (blen l).
Proof. revert n; induction l as [|x r IH]; intros n; cbn [ztake].
  - rewrite blen_nil. lia.
  - destruct (Z.leb_spec n 0).
    + rewrite blen_nil, blen_cons. pose proof (blen_nonneg r). lia.
    + rewrite !blen_cons, IH. pose proof (blen_nonneg r). lia.
Qed.

Lemma ztake_all n l : blen l <= n -> ztake n l = l.
Proof. revert n; induction l as [|x r IH]; intros n H; cbn; [reflexivity|].
  rewrite blen_cons in H. pose proof (blen_nonneg r).
  destruct (Z.leb_spec n 0); [lia|]. f_equal; apply IH; lia. Qed.
Lemma zdrop_all n l : blen l <= n -> zdrop n l = [].
Proof. intros H. pose proof (ztake_zdrop n l) as E. rewrite (ztake_all _ _ H) in E.
  apply (app_inv_head l). rewrite app_nil_r. exact E. Qed.

Lemma blen_zdrop n l : blen (zdrop n l) = blen l - Z.min (Z.max 0 n) (blen l).
Proof. pose proof (ztake_zdrop n l) as E. apply (f_equal blen) in E. rewrite blen_app, blen_ztake in E. lia. Qed.

(* ---- named files ---- *)
Lemma filter_notin (id : Z) l : ~ In id l -> filter (fun x => negb (x =? id)) l = l.
Proof. induction l as [|y r IH]; intros H; cbn; [reflexivity|].
  destruct (Z.eqb_spec y id) as [->|]; cbn.
  - exfalso; apply H; left; reflexivity.
  - f_equal; apply IH; intros Hin; apply H; right; exact Hin. Qed.

Lemma wf_fresh fs : fs_wf fs -> ~ In (fnext fs) (fnames fs).
Proof. unfold fs_wf; intros H Hin. rewrite Forall_forall in H. specialize (H _ Hin). lia. Qed.

Lemma fs_create_wf fs : fs_wf fs -> fs_wf (fst (fs_create fs)).
Proof. unfold fs_wf, fs_create; cbn. intros H. constructor; [lia|].
  eapply Forall_impl; [|exact H]. cbn; intros; lia. Qed.
Lemma fs_remove_wf fs id : fs_wf fs -> fs_wf (fs_remove fs id).
Proof. unfold fs_wf, fs_remove; cbn. intros H. rewrite Forall_forall in *. intros x Hx.
  apply filter_In in Hx. apply H, Hx. Qed.
Lemma fs_create_names fs : fnames (fst (fs_create fs)) = snd (fs_create fs) :: fnames fs.
Proof. reflexivity. Qed.
Lemma fs_create_remove fs : fs_wf fs ->
  fnames (fs_remove (fst (fs_create fs)) (snd (fs_create fs))) = fnames fs.
Proof. intros H. unfold fs_remove, fs_create; cbn. rewrite Z.eqb_refl; cbn. apply filter_notin, wf_fresh, H. Qed.

(* ---- New ---- *)
Definition mem_eff (mem max : Z) : Z :=
  let mem0 := eff_mem mem in if (0 <? max) && (max <? mem0) then max else mem0.

Lemma mb_new_fs mem max input fs : fs_wf fs ->
  fs_wf (fst (mb_new mem max input fs)) /\ fnames (fst (mb_new mem max input fs)) = fnames fs.
Proof. intros H. unfold mb_new.
  destruct (_ <=? 0); [|split; [exact H|reflexivity]].
  destruct (fs_create fs) as [fs1 id] eqn:E.
  assert (fs1 = fst (fs_create fs)) as -> by (rewrite E; reflexivity).
  assert (id = snd (fs_create fs)) as -> by (rewrite E; reflexivity).
  destruct (_ && _); cbn [fst]; (split; [apply fs_remove_wf, fs_create_wf, H|apply fs_create_remove, H]). Qed.

(* what New returns: error exactly when a positive maximum is exceeded; otherwise the exact bytes *)
Lemma mb_new_ok mem max input fs : 0 <= mem ->
  match snd (mb_new mem max input fs) with
  | inl e => e = ErrMaxSize /\ 0 < max /\ max < blen input
  | inr r => ~ (0 < max /\ max < blen input) /\
             r_all r = input /\ r_rest r = input /\ r_len r = blen input /\ r_clean r = None /\
             r_mem r = ztake (mem_eff mem max) input /\
             (r_file r = None <-> blen input < mem_eff mem max)
  end.
Proof. intros Hmem. unfold mb_new. fold (mem_eff mem max). set (m := mem_eff mem max).
  assert (Hm : 0 < m).
  { unfold m, mem_eff, eff_mem, DefaultMemBytes.
    destruct (Z.eqb_spec mem 0); destruct (Z.ltb_spec 0 max); cbn [andb]; try lia;
      match goal with |- context [?a <? ?b] => destruct (Z.ltb_spec a b) end; lia. }
  assert (Hmm : 0 < max -> m <= max).
  { unfold m, mem_eff. destruct (Z.ltb_spec 0 max); cbn [andb]; [|lia].
    destruct (Z.ltb_spec max (eff_mem mem)); lia. }
  pose proof (blen_ztake m input) as Lt. pose proof (blen_zdrop m input) as Ld.
  pose proof (blen_nonneg input) as Li.
  assert (Hsum : blen (ztake m input) + blen (zdrop m input) = blen input).
  { rewrite <- blen_app, ztake_zdrop; reflexivity. }
  destruct (Z.leb_spec (m - blen (ztake m input)) 0) as [Hs|Hs].
  - destruct (fs_create fs) as [fs1 id].
    destruct (Z.ltb_spec 0 max) as [Hx|Hx]; cbn [andb].
    + destruct (Z.ltb_spec (max - m) (blen (zdrop m input))) as [Hy|Hy]; cbn [snd].
      * split; [reflexivity|lia].
      * unfold r_all; cbn [r_mem r_file r_rest r_len r_clean]. rewrite ztake_zdrop, Hsum.
        split; [lia|]. repeat (split; [reflexivity|]). split; [intros; discriminate|lia].
    + cbn [snd]. unfold r_all; cbn [r_mem r_file r_rest r_len r_clean]. rewrite ztake_zdrop, Hsum.
      split; [lia|]. repeat (split; [reflexivity|]). split; [intros; discriminate|lia].
  - cbn [snd]. unfold r_all; cbn [r_mem r_file r_rest r_len r_clean]. rewrite app_nil_r.
    assert (E : ztake m input = input) by (apply ztake_all; lia).
    rewrite E. split; [lia|]. repeat (split; [reflexivity|]). split; [intros _; lia|reflexivity].
Qed.

(* ---- WriterOnce ---- *)
(* what the writer holds: state other than CalledRead, content = the accepted bytes, files accounted for *)
Record winv (base : list Z) (w : writer) (fs : fsT) (data : bytes) : Prop := {
  wi_wf : fs_wf fs;
  wi_data : w_mem w ++ w_fdata w = data;
  wi_total : w_total w = blen data;
  wi_st : match w_st w with
          | WInit => data = [] /\ w_fid w = None /\ fnames fs = base
          | WMem => w_fdata w = [] /\ w_fid w = None /\ fnames fs = base
          | WFile => exists f, w_fid w = Some f /\ fnames fs = f :: base /\ ~ In f base
          | WCalledRead => False
          end
}.

Lemma winv_new base mem max fs : fs_wf fs -> fnames fs = base -> winv base (w_new mem max) fs [].
Proof. intros H E. constructor; cbn; auto. Qed.

Lemma w_write_opts w p fs : w_memB (fst (fst (w_write w p fs))) = w_memB w /\ w_maxB (fst (fst (w_write w p fs))) = w_maxB w.
Proof. unfold w_write. destruct (_ && _); [auto|]. destruct (w_st w); cbn; auto.
  all: destruct (_ <=? 0); cbn; auto. Qed.

(* a write either fails (over the maximum) leaving everything unchanged, or appends the bytes *)
Lemma w_write_spec base w p fs data : winv base w fs data ->
  let over := (0 <? w_maxB w) && (w_maxB w <? blen p + blen data) in
  let r := w_write w p fs in
  snd r = negb over /\
  (over = true -> fst r = (w, fs)) /\
  (over = false -> winv base (fst (fst r)) (snd (fst r)) (data ++ p) /\ w_st (fst (fst r)) <> WInit).
Proof. intros I. destruct I as [Hwf Hd Ht Hs]. cbn zeta. unfold w_write. rewrite Ht.
  destruct ((0 <? w_maxB w) && (w_maxB w <? blen p + blen data)); cbn [negb].
  - split; [reflexivity|]. split; [reflexivity|]. intros; discriminate.
  - assert (Hgen : forall (Hst : w_st w = WInit \/ w_st w = WMem) (Hf : w_fdata w = []) (Hid : w_fid w = None)
        (Hn : fnames fs = base),
        let tm := writeToMem w (blen p) in
        let r := if blen p - tm <=? 0
          then ({| w_memB := w_memB w; w_maxB := w_maxB w; w_st := WMem; w_mem := w_mem w ++ ztake tm p;
                   w_fdata := w_fdata w; w_fid := w_fid w; w_total := blen data + tm |}, fs, true)
          else let '(fs1, id) := fs_create fs in
               ({| w_memB := w_memB w; w_maxB := w_maxB w; w_st := WFile; w_mem := w_mem w ++ ztake tm p;
                   w_fdata := zdrop tm p; w_fid := Some id; w_total := blen data + tm + (blen p - tm) |}, fs1, true) in
        snd r = true /\ (false = true -> fst r = (w, fs)) /\
        (false = false -> winv base (fst (fst r)) (snd (fst r)) (data ++ p) /\ w_st (fst (fst r)) <> WInit)).
    { intros Hst Hf Hid Hn. cbn zeta.
      assert (Htm : 0 <= writeToMem w (blen p) <= blen p).
      { unfold writeToMem. pose proof (blen_nonneg p). destruct (Z.leb_spec (w_memB w - w_total w) 0); [lia|].
        destruct (Z.ltb_spec (blen p) (w_memB w - w_total w)); lia. }
      rewrite Hf, app_nil_r in Hd.
      destruct (Z.leb_spec (blen p - writeToMem w (blen p)) 0) as [Hl|Hl]; cbn [fst snd].
      - split; [reflexivity|]. split; [intros; discriminate|]. intros _. split; [|cbn; discriminate].
        assert (E : ztake (writeToMem w (blen p)) p = p) by (apply ztake_all; lia).
        constructor; cbn.
        + exact Hwf.
        + rewrite Hf, app_nil_r, E, Hd. reflexivity.
        + rewrite blen_app. lia.
        + auto.
      - destruct (fs_create fs) as [fs1 id] eqn:Ec. cbn [fst snd].
        split; [reflexivity|]. split; [intros; discriminate|]. intros _. split; [|cbn; discriminate].
        assert (fs1 = fst (fs_create fs)) as -> by (rewrite Ec; reflexivity).
        assert (id = snd (fs_create fs)) as -> by (rewrite Ec; reflexivity).
        constructor; cbn.
        + apply fs_create_wf, Hwf.
        + rewrite <- app_assoc, ztake_zdrop, Hd. reflexivity.
        + rewrite blen_app. lia.
        + exists (fnext fs). split; [reflexivity|]. split; [rewrite Hn; reflexivity|].
          rewrite <- Hn. apply wf_fresh, Hwf. }
    destruct (w_st w) eqn:Est.
    + destruct Hs as (Hdn & Hid & Hn).
      assert (Hf : w_fdata w = []) by (rewrite Hdn in Hd; apply app_eq_nil in Hd; tauto).
      apply Hgen; auto.
    + destruct Hs as (Hf & Hid & Hn). apply Hgen; auto.
    + cbn [fst snd]. split; [reflexivity|]. split; [intros; discriminate|]. intros _.
      split; [|cbn; discriminate]. destruct Hs as (f & Hid & Hn & Hni).
      constructor; cbn.
      * exact Hwf.
      * rewrite app_assoc, Hd. reflexivity.
      * rewrite blen_app. lia.
      * exists f. auto.
    + destruct Hs.
Qed.

(* Reader(): fails only on an untouched writer; hands out exactly the accepted bytes and, for a spilled
   writer, the cleanup of its file *)
Lemma w_reader_spec base w fs data : winv base w fs data ->
  match w_reader w with
  | (w', None) => w' = w /\ w_st w = WInit
  | (w', Some r) =>
      w_st w <> WInit /\ w_st w' = WCalledRead /\ w_fid w' = None /\ r_all r = data /\
      fnames (mr_close r fs) = base /\ fs_wf (mr_close r fs)
  end.
Proof. intros [Hwf Hd Ht Hs]. unfold w_reader. destruct (w_st w) eqn:E.
  - auto.
  - destruct Hs as (Hf & Hid & Hn). rewrite Hf, app_nil_r in Hd.
    repeat split; try discriminate; cbn; auto. unfold r_all; cbn. rewrite app_nil_r. exact Hd.
  - destruct Hs as (f & Hid & Hn & Hni). repeat split; try discriminate; cbn; auto.
    + unfold mr_close; cbn. rewrite Hid. unfold fs_remove; cbn. rewrite Hn; cbn. rewrite Z.eqb_refl; cbn.
      apply filter_notin, Hni.
    + unfold mr_close; cbn. rewrite Hid. apply fs_remove_wf, Hwf.
  - destruct Hs.
Qed.
