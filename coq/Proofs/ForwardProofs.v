(* Lemmas about the forwarder's request path (Model/Forward.v). *)
From Oxy Require Import Base.Prelude Model.Source Proofs.SourceProofs Model.Forward.
From Coq Require Import Permutation.
Open Scope Z_scope.

(* ---------- header maps ---------- *)
Lemma beq_sym a b : beq a b = beq b a.
Proof. destruct (beq a b) eqn:E1, (beq b a) eqn:E2; try reflexivity.
  - apply beq_eq in E1. subst. rewrite beq_refl in E2. discriminate.
  - apply beq_eq in E2. subst. rewrite beq_refl in E1. discriminate. Qed.

Lemma hvals_hdel_same h k : hvals (hdel h k) k = None.
Proof. induction h as [|[k' vs] h IH]; cbn; [reflexivity|].
  destruct (beq k' k) eqn:E; cbn; [exact IH|]. rewrite E. exact IH. Qed.

Lemma hvals_hdel_other h k k' : beq k' k = false -> hvals (hdel h k') k = hvals h k.
Proof. intros Hne. induction h as [|[k0 vs] h IH]; cbn; [reflexivity|].
  destruct (beq k0 k') eqn:E; cbn.
  - apply beq_eq in E. subst k0. rewrite Hne. exact IH.
  - destruct (beq k0 k); [reflexivity|exact IH]. Qed.

Lemma hvals_app_none h1 h2 k : hvals h1 k = None -> hvals (h1 ++ h2) k = hvals h2 k.
Proof. induction h1 as [|[k0 vs] h1 IH]; cbn; [reflexivity|]. destruct (beq k0 k); [discriminate|exact IH]. Qed.

Lemma hvals_app_some h1 h2 k vs : hvals h1 k = Some vs -> hvals (h1 ++ h2) k = Some vs.
Proof. induction h1 as [|[k0 vs0] h1 IH]; cbn; [discriminate|]. destruct (beq k0 k); [auto|exact IH]. Qed.

Lemma hvals_hput_same h k vs : hvals (hput h k vs) k = Some vs.
Proof. unfold hput. rewrite hvals_app_none by apply hvals_hdel_same. cbn. rewrite beq_refl. reflexivity. Qed.

Lemma hvals_hput_other h k k' vs : beq k' k = false -> hvals (hput h k' vs) k = hvals h k.
Proof. intros Hne. unfold hput. destruct (hvals (hdel h k') k) as [w|] eqn:E.
  - rewrite (hvals_app_some _ _ _ _ E). rewrite <- E. apply hvals_hdel_other. exact Hne.
  - rewrite hvals_app_none by exact E. cbn. rewrite Hne. rewrite <- E. apply hvals_hdel_other. exact Hne. Qed.

Lemma hvals_hset_same h k v : hvals (hset h k v) k = Some [v].
Proof. apply hvals_hput_same. Qed.

Lemma hvals_hset_other h k k' v : beq k' k = false -> hvals (hset h k' v) k = hvals h k.
Proof. apply hvals_hput_other. Qed.

Lemma hget_hset_same h k v : hget (hset h k v) k = v.
Proof. unfold hget. rewrite hvals_hset_same. reflexivity. Qed.

Lemma hget_hset_other h k k' v : beq k' k = false -> hget (hset h k' v) k = hget h k.
Proof. intros H. unfold hget. rewrite hvals_hset_other by exact H. reflexivity. Qed.

Lemma hvals_fold_hdel_other ks h k :
  existsb (fun k' => beq k' k) ks = false -> hvals (fold_left hdel ks h) k = hvals h k.
Proof. revert h; induction ks as [|k0 ks IH]; intros h; cbn; [reflexivity|].
  intros H. apply orb_false_elim in H. destruct H as [H1 H2]. rewrite IH by exact H2. apply hvals_hdel_other. exact H1. Qed.

Lemma hvals_fold_hdel_in ks h k : In k ks -> hvals (fold_left hdel ks h) k = None.
Proof. revert h; induction ks as [|k0 ks IH]; intros h; cbn; [tauto|].
  intros [->|Hin]; [|apply IH; exact Hin].
  destruct (existsb (fun k' => beq k' k) ks) eqn:E.
  - apply existsb_exists in E. destruct E as (k' & Hin & Hk). apply beq_eq in Hk. subst k'. apply IH. exact Hin.
  - rewrite hvals_fold_hdel_other by exact E. apply hvals_hdel_same. Qed.

(* ---------- unique keys (a Go map) ---------- *)
Definition wf_headers (h : headers) : Prop := NoDup (map fst h).

Lemma keys_hdel_incl h k x : In x (map fst (hdel h k)) -> In x (map fst h) /\ x <> k.
Proof. induction h as [|[k0 vs] h IH]; cbn; [tauto|].
  destruct (beq k0 k) eqn:E; cbn.
  - intros H. apply IH in H. tauto.
  - intros [<-|H]; [split; [auto|]; apply beq_neq; exact E|]. apply IH in H. tauto. Qed.

Lemma wf_hdel h k : wf_headers h -> wf_headers (hdel h k).
Proof. unfold wf_headers. induction h as [|[k0 vs] h IH]; cbn; intros H; [constructor|]. inv H.
  destruct (beq k0 k); cbn; [apply IH; assumption|]. constructor; [|apply IH; assumption].
  intros Hin. apply keys_hdel_incl in Hin. tauto. Qed.

Lemma wf_hput h k vs : wf_headers h -> wf_headers (hput h k vs).
Proof. intros H. unfold hput, wf_headers. rewrite map_app. cbn.
  eapply Permutation_NoDup; [apply Permutation_cons_append|]. constructor; [|apply wf_hdel; exact H].
  intros Hin. apply keys_hdel_incl in Hin. tauto. Qed.

Lemma wf_fold_hdel ks h : wf_headers h -> wf_headers (fold_left hdel ks h).
Proof. revert h; induction ks; intros h H; cbn; [exact H|]. apply IHks, wf_hdel, H. Qed.

Lemma hvals_In h k vs : wf_headers h -> (hvals h k = Some vs <-> In (k, vs) h).
Proof. unfold wf_headers. induction h as [|[k0 vs0] h IH]; cbn; intros H; [split; [discriminate|tauto]|]. inv H.
  destruct (beq k0 k) eqn:E.
  - apply beq_eq in E. subst k0. split.
    + intros H; inv H. auto.
    + intros [H|H]; [inv H; reflexivity|]. exfalso. apply H2. change k with (fst (k, vs)). apply in_map. exact H.
  - rewrite (IH H3). split; [auto|]. intros [H|H]; [|exact H]. inv H. rewrite beq_refl in E. discriminate. Qed.

Lemma hvals_perm h h' k : wf_headers h -> Permutation h h' -> hvals h' k = hvals h k.
Proof. intros Hwf Hp. assert (Hwf' : wf_headers h').
  { unfold wf_headers in *. eapply Permutation_NoDup; [apply Permutation_map; exact Hp|exact Hwf]. }
  destruct (hvals h k) as [vs|] eqn:E.
  - apply (hvals_In _ _ _ Hwf) in E. apply (hvals_In _ _ _ Hwf'). eapply Permutation_in; eassumption.
  - destruct (hvals h' k) as [vs|] eqn:E'; [|reflexivity]. apply (hvals_In _ _ _ Hwf') in E'.
    apply Permutation_sym in Hp. pose proof (Permutation_in _ Hp E') as Hin. apply (hvals_In _ _ _ Hwf) in Hin. congruence. Qed.

Lemma insert_hdr_perm e h : Permutation (insert_hdr e h) (e :: h).
Proof. induction h as [|e' h IH]; cbn; [reflexivity|].
  destruct (bytes_le (fst e) (fst e')); [reflexivity|]. rewrite IH. apply perm_swap. Qed.

Lemma sort_headers_perm h : Permutation (sort_headers h) h.
Proof. induction h as [|e h IH]; cbn; [reflexivity|]. rewrite insert_hdr_perm. constructor. exact IH. Qed.

(* ---------- split / join ---------- *)
Lemma split_on_no_sep c p : contains c p = false -> split_on c p = [p].
Proof. induction p as [|x p IH]; cbn [split_on]; [reflexivity|]. rewrite contains_cons. intros H.
  apply orb_false_elim in H. destruct H as [H1 H2]. rewrite Z.eqb_sym in H1. rewrite H1, (IH H2). reflexivity. Qed.

Lemma split_on_app c p rest : contains c p = false -> split_on c (p ++ c :: rest) = p :: split_on c rest.
Proof. induction p as [|x p IH]; cbn [split_on app].
  - rewrite Z.eqb_refl. reflexivity.
  - rewrite contains_cons. intros H. apply orb_false_elim in H. destruct H as [H1 H2].
    rewrite Z.eqb_sym in H1. rewrite H1, (IH H2). reflexivity. Qed.

Lemma split_on_pieces c s p : In p (split_on c s) -> contains c p = false.
Proof. revert p; induction s as [|x s IH]; cbn [split_on]; intros p.
  - intros [<-|[]]. reflexivity.
  - destruct (Z.eqb_spec x c) as [->|Hne].
    + intros [<-|H]; [reflexivity|apply IH; exact H].
    + destruct (split_on c s) as [|q qs] eqn:E.
      * intros [<-|[]]. rewrite contains_cons. cbn. destruct (Z.eqb_spec c x); [congruence|reflexivity].
      * intros [<-|H].
        -- rewrite contains_cons, (IH q) by (left; reflexivity). destruct (Z.eqb_spec c x); [congruence|reflexivity].
        -- apply IH. right. exact H. Qed.

Lemma split_join c l : l <> [] -> (forall p, In p l -> contains c p = false) -> split_on c (join_with [c] l) = l.
Proof. induction l as [|p l IH]; [congruence|]. intros _ H. destruct l as [|q l].
  - cbn. apply split_on_no_sep. apply H. left; reflexivity.
  - change (join_with [c] (p :: q :: l)) with (p ++ c :: join_with [c] (q :: l)).
    rewrite split_on_app by (apply H; left; reflexivity). f_equal. apply IH; [discriminate|].
    intros p' Hin. apply H. right. exact Hin. Qed.

Lemma filter_flat_map {A B} (f : B -> bool) (g : A -> list B) l :
  filter f (flat_map g l) = flat_map (fun x => filter f (g x)) l.
Proof. induction l as [|x l IH]; cbn; [reflexivity|]. rewrite filter_app, IH. reflexivity. Qed.

Lemma fold_left_flat_map {A B C} (f : A -> B -> A) (g : C -> list B) l a :
  fold_left f (flat_map g l) a = fold_left (fun a x => fold_left f (g x) a) l a.
Proof. revert a; induction l as [|x l IH]; intros a; cbn; [reflexivity|]. rewrite fold_left_app. apply IH. Qed.

Lemma fold_left_ext {A B} (f g : A -> B -> A) l a : (forall a b, f a b = g a b) -> fold_left f l a = fold_left g l a.
Proof. intros H. revert a; induction l as [|x l IH]; intros a; cbn; [reflexivity|]. rewrite H. apply IH. Qed.

(* ---------- trimming ---------- *)
Lemma drop_while_decomp P s : exists w, s = w ++ drop_while P s /\ forallb P w = true.
Proof. induction s as [|x s (w & E & Hw)]; cbn; [exists []; auto|].
  destruct (P x) eqn:Px; [|exists []; auto]. exists (x :: w). cbn. rewrite Px, Hw. split; [f_equal; exact E|reflexivity]. Qed.

Lemma drop_while_all P w r : forallb P w = true -> drop_while P (w ++ r) = drop_while P r.
Proof. induction w as [|x w IH]; cbn; [reflexivity|]. intros H. apply andb_prop in H. destruct H as [H1 H2]. rewrite H1. apply IH, H2. Qed.

Lemma drop_while_head_false P s : (forall x, In x s -> P x = false) -> drop_while P s = s.
Proof. destruct s as [|x s]; cbn; [reflexivity|]. intros H. rewrite (H x) by (left; reflexivity). reflexivity. Qed.

Lemma forallb_rev {A} (P : A -> bool) l : forallb P (rev l) = forallb P l.
Proof. induction l as [|x l IH]; cbn; [reflexivity|]. rewrite forallb_app, IH. cbn. rewrite andb_true_r. apply andb_comm. Qed.

Lemma trim_decomp P s : exists w0 w, s = w0 ++ trim P s ++ w /\ forallb P w0 = true /\ forallb P w = true.
Proof. destruct (drop_while_decomp P s) as (w0 & E0 & H0).
  destruct (drop_while_decomp P (rev (drop_while P s))) as (w1 & E1 & H1).
  exists w0, (rev w1). unfold trim. split; [|split; [exact H0|rewrite forallb_rev; exact H1]].
  rewrite E0 at 1. f_equal. rewrite <- rev_app_distr, <- E1, rev_involutive. reflexivity. Qed.

Lemma trim_sandwich P w0 t w :
  forallb P w0 = true -> forallb P w = true -> (forall x, In x t -> P x = false) -> trim P (w0 ++ t ++ w) = t.
Proof. intros H0 Hw Ht. unfold trim. rewrite drop_while_all by exact H0.
  destruct t as [|x t].
  - cbn [app]. replace (drop_while P w) with (@nil Z); [reflexivity|].
    rewrite <- (app_nil_r w). rewrite drop_while_all by exact Hw. reflexivity.
  - assert (E : drop_while P ((x :: t) ++ w) = (x :: t) ++ w).
    { cbn. rewrite (Ht x) by (left; reflexivity). reflexivity. }
    rewrite E, rev_app_distr. rewrite drop_while_all by (rewrite forallb_rev; exact Hw).
    rewrite drop_while_head_false; [apply rev_involutive|]. intros y Hy. apply Ht. apply in_rev. exact Hy. Qed.

Lemma forallb_impl {A} (P Q : A -> bool) l : (forall x, P x = true -> Q x = true) -> forallb P l = true -> forallb Q l = true.
Proof. intros H. induction l as [|x l IH]; cbn; [auto|]. intros E. apply andb_prop in E. destruct E as [E1 E2].
  rewrite (H x E1), (IH E2). reflexivity. Qed.

Lemma ows_is_space c : is_ows c = true -> is_space c = true.
Proof. unfold is_ows, is_space. intros H. apply orb_prop in H. destruct H as [H|H]; apply Z.eqb_eq in H; subst; reflexivity. Qed.

Lemma space_not_token c : is_space c = true -> is_token_byte c = false.
Proof. unfold is_space. intros H. apply orb_prop in H. destruct H as [H|H].
  - apply andb_prop in H. destruct H as [H1 H2]. apply Z.leb_le in H1. apply Z.leb_le in H2.
    assert (E : c = 9 \/ c = 10 \/ c = 11 \/ c = 12 \/ c = 13) by lia.
    destruct E as [->|[->|[->|[->| ->]]]]; reflexivity.
  - apply Z.eqb_eq in H. subst. reflexivity. Qed.

(* if the option, trimmed as ReverseProxy trims it, names a forwarding header, dropForwardingConnectionOptions's
   stronger trimming sees the same name *)
Lemma is_xheader_tokens k : is_xheader k = true -> forallb is_token_byte k = true.
Proof. unfold is_xheader, x_headers. cbn [existsb]. intros H.
  repeat (apply orb_prop in H; destruct H as [H|H]; [apply beq_eq in H; subst; reflexivity|]). discriminate. Qed.

Lemma canon_go_tokens up t : forallb is_token_byte (canon_go up t) = true -> True.
Proof. trivial. Qed.

Lemma xheader_all_token t : is_xheader (canon_key t) = true -> forallb is_token_byte t = true.
Proof. unfold canon_key. destruct (forallb is_token_byte t) eqn:E; [reflexivity|]. intros H.
  apply is_xheader_tokens in H. congruence. Qed.

Lemma xheader_trims_agree o : is_xheader (canon_key (trim_string o)) = true -> trim_space o = trim_string o.
Proof. intros H. apply xheader_all_token in H.
  destruct (trim_decomp is_ows o) as (w0 & w & E & H0 & Hw). fold (trim_string o) in E.
  unfold trim_space. rewrite E at 1. apply trim_sandwich.
  - eapply forallb_impl; [apply ows_is_space|exact H0].
  - eapply forallb_impl; [apply ows_is_space|exact Hw].
  - intros x Hx. destruct (is_space x) eqn:Ex; [|reflexivity]. apply space_not_token in Ex.
    rewrite forallb_forall in H. rewrite (H x Hx) in Ex. discriminate. Qed.

(* ---------- folds of conditional deletions ---------- *)
Definition cdel (c : bytes -> bool) (nm : bytes -> bytes) (h : headers) (o : bytes) : headers :=
  if c o then hdel h (nm o) else h.

Lemma hvals_hdel_none h k k' : hvals h k = None -> hvals (hdel h k') k = None.
Proof. intros H. destruct (beq k' k) eqn:E.
  - apply beq_eq in E. subst. apply hvals_hdel_same.
  - rewrite hvals_hdel_other by exact E. exact H. Qed.

Lemma fold_cdel_none c nm opts h k : hvals h k = None -> hvals (fold_left (cdel c nm) opts h) k = None.
Proof. revert h; induction opts as [|o opts IH]; intros h H; cbn; [exact H|]. apply IH. unfold cdel.
  destruct (c o); [apply hvals_hdel_none; exact H|exact H]. Qed.

Lemma fold_cdel_spec c nm opts h k :
  hvals (fold_left (cdel c nm) opts h) k =
  if existsb (fun o => c o && beq (nm o) k) opts then None else hvals h k.
Proof. revert h; induction opts as [|o opts IH]; intros h; cbn [fold_left existsb]; [reflexivity|].
  unfold cdel at 2. destruct (c o) eqn:Ec; cbn [andb orb]; [|apply IH].
  destruct (beq (nm o) k) eqn:Eb; cbn [orb].
  - apply beq_eq in Eb. subst k. apply fold_cdel_none. apply hvals_hdel_same.
  - rewrite IH. rewrite hvals_hdel_other by exact Eb. reflexivity. Qed.

Lemma wf_fold_cdel c nm opts h : wf_headers h -> wf_headers (fold_left (cdel c nm) opts h).
Proof. revert h; induction opts as [|o opts IH]; intros h H; cbn; [exact H|]. apply IH. unfold cdel.
  destruct (c o); [apply wf_hdel; exact H|exact H]. Qed.

(* ---------- dropForwardingConnectionOptions ---------- *)
Definition opt_name (o : bytes) : bytes := canon_key (trim_space o).
Definition keep (o : bytes) : bool := negb (is_xheader (opt_name o)).
Definition drop_step := cdel (fun o => negb (keep o)) opt_name.

Lemma drop_opts_spec opts h : drop_opts h opts = (fold_left drop_step opts h, filter keep opts).
Proof. revert h; induction opts as [|o opts IH]; intros h; cbn [drop_opts fold_left filter]; [reflexivity|].
  unfold drop_step at 2, cdel, keep. fold (opt_name o). destruct (is_xheader (opt_name o)) eqn:E; cbn [negb].
  - apply IH.
  - rewrite IH. reflexivity. Qed.

Definition kept_value (v : bytes) : list bytes :=
  match filter keep (split_on c_comma v) with [] => [] | opts => [join_with [c_comma] opts] end.

Lemma drop_vals_spec values h :
  drop_vals h values = (fold_left drop_step (flat_map (split_on c_comma) values) h, flat_map kept_value values).
Proof. revert h; induction values as [|v values IH]; intros h; cbn [drop_vals flat_map]; [reflexivity|].
  rewrite drop_opts_spec, IH, fold_left_app.
  assert (Ekv : kept_value v = match filter keep (split_on c_comma v) with
                               | [] => [] | p :: l => [join_with [c_comma] (p :: l)] end) by reflexivity.
  rewrite Ekv. destruct (filter keep (split_on c_comma v)); reflexivity. Qed.

Lemma kept_value_options v : flat_map (split_on c_comma) (kept_value v) = filter keep (split_on c_comma v).
Proof. unfold kept_value. destruct (filter keep (split_on c_comma v)) as [|p l] eqn:E; [reflexivity|].
  cbn [flat_map]. rewrite app_nil_r. apply split_join; [discriminate|].
  intros q Hq. rewrite <- E in Hq. apply filter_In in Hq. destruct Hq as [Hq _]. eapply split_on_pieces; exact Hq. Qed.

Lemma kept_options values :
  flat_map (split_on c_comma) (flat_map kept_value values) = filter keep (flat_map (split_on c_comma) values).
Proof. induction values as [|v values IH]; cbn [flat_map]; [reflexivity|].
  rewrite flat_map_app, kept_value_options, IH, filter_app. reflexivity. Qed.

Lemma connection_options_of h vs : hvals h Connection = Some vs -> connection_options h = flat_map (split_on c_comma) vs.
Proof. intros H. unfold connection_options, hvals_nil. rewrite H. reflexivity. Qed.

Lemma connection_options_none h : hvals h Connection = None -> connection_options h = [].
Proof. intros H. unfold connection_options, hvals_nil. rewrite H. reflexivity. Qed.

Lemma dfco_options h :
  connection_options (drop_forwarding_connection_options h) = filter keep (connection_options h).
Proof. unfold drop_forwarding_connection_options. destruct (hvals h Connection) as [values|] eqn:E.
  - rewrite drop_vals_spec. rewrite (connection_options_of _ _ E). rewrite <- kept_options.
    destruct (flat_map kept_value values) as [|kv kvs] eqn:Ek.
    + rewrite connection_options_none by apply hvals_hdel_same. reflexivity.
    + erewrite connection_options_of by apply hvals_hput_same. reflexivity.
  - rewrite (connection_options_none _ E). reflexivity. Qed.

Lemma dfco_hvals h k : beq Connection k = false ->
  hvals (drop_forwarding_connection_options h) k =
  if existsb (fun o => negb (keep o) && beq (opt_name o) k) (connection_options h) then None else hvals h k.
Proof. intros Hk. unfold drop_forwarding_connection_options. destruct (hvals h Connection) as [values|] eqn:E.
  - rewrite drop_vals_spec. rewrite (connection_options_of _ _ E).
    destruct (flat_map kept_value values).
    + rewrite hvals_hdel_other by exact Hk. apply fold_cdel_spec.
    + rewrite hvals_hput_other by exact Hk. apply fold_cdel_spec.
  - rewrite (connection_options_none _ E). reflexivity. Qed.

Lemma wf_dfco h : wf_headers h -> wf_headers (drop_forwarding_connection_options h).
Proof. intros H. unfold drop_forwarding_connection_options. destruct (hvals h Connection) as [values|]; [|exact H].
  rewrite drop_vals_spec. destruct (flat_map kept_value values); [apply wf_hdel|apply wf_hput]; apply wf_fold_cdel; exact H. Qed.

(* "the client named header k in Connection", as dropForwardingConnectionOptions reads the options *)
Definition named (h : headers) (k : bytes) : bool := existsb (fun o => beq (opt_name o) k) (connection_options h).

Lemma dfco_xheader h k : is_xheader k = true ->
  hvals (drop_forwarding_connection_options h) k = if named h k then None else hvals h k.
Proof. intros Hx. rewrite dfco_hvals.
  - unfold named. replace (existsb (fun o => negb (keep o) && beq (opt_name o) k) (connection_options h))
      with (existsb (fun o => beq (opt_name o) k) (connection_options h)); [reflexivity|].
    induction (connection_options h) as [|o l IH]; cbn; [reflexivity|]. rewrite IH. f_equal.
    destruct (beq (opt_name o) k) eqn:E; [|symmetry; apply andb_false_r]. apply beq_eq in E. unfold keep. rewrite E, Hx. reflexivity.
  - destruct (beq Connection k) eqn:E; [|reflexivity]. apply beq_eq in E. subst k. discriminate. Qed.

Lemma dfco_other h k : is_xheader k = false -> beq Connection k = false ->
  hvals (drop_forwarding_connection_options h) k = hvals h k.
Proof. intros Hx Hc. rewrite dfco_hvals by exact Hc.
  replace (existsb (fun o => negb (keep o) && beq (opt_name o) k) (connection_options h)) with false; [reflexivity|].
  symmetry. induction (connection_options h) as [|o l IH]; cbn; [reflexivity|]. rewrite IH, orb_false_r.
  destruct (beq (opt_name o) k) eqn:E; [|apply andb_false_r]. apply beq_eq in E. unfold keep. rewrite E, Hx. reflexivity. Qed.

(* ---------- HeaderRewriter.Rewrite ---------- *)
Definition scheme_of (tls : bool) : bytes := if tls then s_https else s_http.

(* forwardedPort as a function of the proto header value *)
Definition port_of (host proto : bytes) (tls : bool) : bytes :=
  let fallback := if beq proto s_https || beq proto s_wss then s_443 else if tls then s_443 else s_80 in
  match split_host_port host with
  | inl (_, port) => if is_nil port then fallback else port
  | inr _ => fallback
  end.

Lemma forwarded_port_eq host h tls : forwarded_port host h tls = port_of host (hget h XForwardedProto) tls.
Proof. reflexivity. Qed.

Ltac hs := repeat (first [ rewrite hvals_hset_same | rewrite hvals_hset_other by reflexivity
                         | rewrite hget_hset_same | rewrite hget_hset_other by reflexivity ]).

Section Rewrite.
  Variable hostname : bytes.
  Variable r : req.
  Let h := rq_hdr r.

  Lemma rewrite_other k :
    beq XRealIp k = false -> beq XForwardedProto k = false -> beq XForwardedPort k = false ->
    beq XForwardedHost k = false -> beq XForwardedServer k = false ->
    hvals (rewrite_headers hostname r) k = hvals h k.
  Proof. intros H1 H2 H3 H4 H5. unfold rewrite_headers. fold h.
    repeat match goal with
    | |- context [match ?c with inl _ => _ | inr _ => _ end] => destruct c as [[? ?]|?]
    | |- context [if ?c then _ else _] => destruct c
    end; repeat (rewrite hvals_hset_other by assumption); reflexivity. Qed.

  Lemma rewrite_real_ip :
    hvals (rewrite_headers hostname r) XRealIp =
    match split_host_port (rq_remote r) with
    | inl (ip, _) => if is_nil (hget h XRealIp) then Some [ipv6fix ip] else hvals h XRealIp
    | inr _ => hvals h XRealIp
    end.
  Proof. unfold rewrite_headers. fold h.
    repeat match goal with
    | |- context [match ?c with inl _ => _ | inr _ => _ end] => destruct c as [[? ?]|?]
    | |- context [if ?c then _ else _] => destruct c
    end; hs; reflexivity. Qed.

  Lemma rewrite_proto :
    hvals (rewrite_headers hostname r) XForwardedProto =
    if is_nil (hget h XForwardedProto) then Some [scheme_of (rq_tls r)] else hvals h XForwardedProto.
  Proof. unfold rewrite_headers. fold h.
    destruct (split_host_port (rq_remote r)) as [[ip p]|e]; [destruct (is_nil (hget h XRealIp))|]; hs;
    (destruct (is_nil (hget h XForwardedProto)) eqn:E1; hs;
     repeat match goal with |- context [if ?c then _ else _] => destruct c end; hs; reflexivity). Qed.

  Definition final_proto : bytes :=
    if is_nil (hget h XForwardedProto) then scheme_of (rq_tls r) else hget h XForwardedProto.

  Lemma rewrite_port :
    hvals (rewrite_headers hostname r) XForwardedPort =
    if is_nil (hget h XForwardedPort) then Some [port_of (rq_host r) final_proto (rq_tls r)] else hvals h XForwardedPort.
  Proof. unfold rewrite_headers, final_proto. fold h.
    destruct (split_host_port (rq_remote r)) as [[ip p]|e]; [destruct (is_nil (hget h XRealIp))|]; hs;
    (destruct (is_nil (hget h XForwardedProto)) eqn:E1; hs;
     (destruct (is_nil (hget h XForwardedPort)) eqn:E2; hs;
      rewrite ?forwarded_port_eq; hs;
      repeat match goal with |- context [if ?c then _ else _] => destruct c end; hs; reflexivity)). Qed.

  Lemma rewrite_host :
    hvals (rewrite_headers hostname r) XForwardedHost =
    if is_nil (hget h XForwardedHost) && negb (is_nil (rq_host r)) then Some [rq_host r] else hvals h XForwardedHost.
  Proof. unfold rewrite_headers. fold h.
    destruct (split_host_port (rq_remote r)) as [[ip p]|e]; [destruct (is_nil (hget h XRealIp))|]; hs;
    (destruct (is_nil (hget h XForwardedProto)) eqn:E1; hs;
     (destruct (is_nil (hget h XForwardedPort)) eqn:E2; hs;
      (destruct (is_nil (hget h XForwardedHost) && negb (is_nil (rq_host r))) eqn:E3; hs;
       destruct (is_nil hostname); hs; reflexivity))). Qed.

  Lemma rewrite_server :
    hvals (rewrite_headers hostname r) XForwardedServer =
    if is_nil hostname then hvals h XForwardedServer else Some [hostname].
  Proof. unfold rewrite_headers. fold h. destruct (is_nil hostname); hs; [|reflexivity].
    repeat match goal with
    | |- context [match ?c with inl _ => _ | inr _ => _ end] => destruct c as [[? ?]|?]
    | |- context [if ?c then _ else _] => destruct c
    end; hs; reflexivity. Qed.

  Lemma wf_rewrite : wf_headers h -> wf_headers (rewrite_headers hostname r).
  Proof. intros H. unfold rewrite_headers. fold h.
    repeat match goal with
    | |- context [match ?c with inl _ => _ | inr _ => _ end] => destruct c as [[? ?]|?]
    | |- context [if ?c then _ else _] => destruct c
    end; repeat apply wf_hput; exact H. Qed.
End Rewrite.

(* ---------- the Director ---------- *)
Lemma url3_eta u : {| u_path := u_path u; u_rawpath := u_rawpath u; u_rawquery := u_rawquery u |} = u.
Proof. destruct u; reflexivity. Qed.

(* the header map the Director leaves *)
Definition director_hdr (hostname : bytes) (r : req) : headers :=
  rewrite_headers hostname (with_hdr r (drop_forwarding_connection_options (rq_hdr r))).

Lemma director_fields parse ph hn r :
  let out := director parse ph hn r in
  rq_url out = get_url_from_request parse r /\ rq_uri out = [] /\ rq_proto out = 11 /\
  rq_url_host out = rq_url_host r /\ rq_remote out = rq_remote r /\ rq_tls out = rq_tls r /\
  rq_host out = (if ph then rq_host r else rq_url_host r) /\
  rq_hdr out = director_hdr hn r.
Proof. unfold director, director_hdr, modify_request, with_hdr. destruct ph; cbn; rewrite url3_eta; repeat split. Qed.

Lemma director_hdr_options hn r :
  connection_options (director_hdr hn r) = filter keep (connection_options (rq_hdr r)).
Proof. unfold director_hdr. rewrite <- dfco_options. unfold connection_options, hvals_nil.
  rewrite rewrite_other by reflexivity. reflexivity. Qed.

Lemma wf_director_hdr hn r : wf_headers (rq_hdr r) -> wf_headers (director_hdr hn r).
Proof. intros H. unfold director_hdr. apply wf_rewrite. cbn. apply wf_dfco. exact H. Qed.

Lemma is_xheader_false_beq k : is_xheader k = false ->
  beq XForwardedProto k = false /\ beq XForwardedFor k = false /\ beq XForwardedHost k = false /\
  beq XForwardedPort k = false /\ beq XForwardedServer k = false /\ beq XRealIp k = false.
Proof. unfold is_xheader, x_headers. cbn [existsb]. intros H.
  repeat (apply orb_false_elim in H; destruct H as [?H H]). rewrite !(beq_sym _ k). tauto. Qed.

Lemma director_hdr_other hn r k : is_xheader k = false -> beq Connection k = false ->
  hvals (director_hdr hn r) k = hvals (rq_hdr r) k.
Proof. intros Hx Hc. destruct (is_xheader_false_beq _ Hx) as (A & B & C & D & E & F).
  unfold director_hdr. rewrite rewrite_other by assumption. cbn. apply dfco_other; assumption. Qed.

(* ---------- removeHopByHopHeaders ---------- *)
Definition rp_name (o : bytes) : bytes := canon_key (trim_string o).
Definition rp_step := cdel (fun o => negb (is_nil (trim_string o))) rp_name.

Lemma del_option_eq h o : del_option h o = rp_step h o.
Proof. unfold del_option, rp_step, cdel, rp_name. destruct (trim_string o); reflexivity. Qed.

Lemma remove_hop_spec h k :
  hvals (remove_hop_by_hop h) k =
  if existsb (fun k' => beq k' k) hop_headers then None
  else if existsb (fun o => negb (is_nil (trim_string o)) && beq (rp_name o) k) (connection_options h) then None
  else hvals h k.
Proof. unfold remove_hop_by_hop. rewrite (fold_left_ext del_option rp_step) by apply del_option_eq.
  destruct (existsb (fun k' => beq k' k) hop_headers) eqn:E.
  - apply existsb_exists in E. destruct E as (k' & Hin & Hk). apply beq_eq in Hk. subst k'.
    apply hvals_fold_hdel_in. exact Hin.
  - rewrite hvals_fold_hdel_other by exact E. apply fold_cdel_spec. Qed.

Lemma wf_remove_hop h : wf_headers h -> wf_headers (remove_hop_by_hop h).
Proof. intros H. unfold remove_hop_by_hop. apply wf_fold_hdel.
  rewrite (fold_left_ext del_option rp_step) by apply del_option_eq. apply wf_fold_cdel. exact H. Qed.

(* options that survive dropForwardingConnectionOptions never make ReverseProxy delete a forwarding header *)
Lemma kept_options_spare_xheaders opts k : is_xheader k = true ->
  existsb (fun o => negb (is_nil (trim_string o)) && beq (rp_name o) k) (filter keep opts) = false.
Proof. intros Hx. induction opts as [|o opts IH]; cbn [filter]; [reflexivity|].
  destruct (keep o) eqn:Ek; [|exact IH]. cbn [existsb]. rewrite IH, orb_false_r.
  destruct (beq (rp_name o) k) eqn:E; [|apply andb_false_r]. apply beq_eq in E. exfalso.
  unfold keep, opt_name in Ek. unfold rp_name in E.
  assert (Hx' : is_xheader (canon_key (trim_string o)) = true) by (rewrite E; exact Hx).
  rewrite (xheader_trims_agree _ Hx'), Hx' in Ek. discriminate. Qed.

Lemma existsb_filter_false {A} (f g : A -> bool) l : existsb f l = false -> existsb f (filter g l) = false.
Proof. induction l as [|x l IH]; cbn; [auto|]. intros H. apply orb_false_elim in H. destruct H as [H1 H2].
  destruct (g x); cbn; [rewrite H1|]; auto. Qed.

(* ---------- the post-Director stage of ReverseProxy ---------- *)
Section Tail.
  Variables inp out o : req.
  Hypothesis Htail : rp_director_tail inp out = Some o.
  Let h := rq_hdr out.
  Let up := upgrade_type h.

  Lemma tail_fields :
    rq_url o = rq_url out /\ rq_uri o = rq_uri out /\ rq_proto o = rq_proto out /\ rq_url_host o = rq_url_host out /\
    rq_host o = rq_host out /\ is_print up = true.
  Proof. unfold rp_director_tail in Htail. fold h up in Htail. destruct (is_print up); cbn [negb] in Htail; [|discriminate].
    injection Htail as <-. unfold with_hdr. cbn [rq_url rq_uri rq_proto rq_url_host rq_host]. repeat split. Qed.

  (* keys the stage never sets *)
  Lemma tail_other k :
    beq Te k = false -> beq Connection k = false -> beq Upgrade k = false -> beq XForwardedFor k = false ->
    beq UserAgent k = false -> hvals (rq_hdr o) k = hvals (remove_hop_by_hop h) k.
  Proof. intros H1 H2 H3 H4 H5. unfold rp_director_tail in Htail. fold h up in Htail.
    destruct (is_print up); cbn [negb] in Htail; [|discriminate]. inv Htail. cbn [rq_hdr with_hdr].
    repeat match goal with
    | |- context [match ?c with inl _ => _ | inr _ => _ end] => destruct c as [[? ?]|?]
    | |- context [match hvals ?a ?b with _ => _ end] => destruct (hvals a b) as [[|? ?]|]
    | |- context [if ?c then _ else _] => destruct c
    end; repeat (rewrite hvals_hset_other by assumption); reflexivity. Qed.

  Lemma tail_te :
    hvals (rq_hdr o) Te = if values_contain_token (hvals_nil (rq_hdr inp) Te) s_trailers then Some [s_trailers] else None.
  Proof. unfold rp_director_tail in Htail. fold h up in Htail.
    destruct (is_print up); cbn [negb] in Htail; [|discriminate]. inv Htail. cbn [rq_hdr with_hdr].
    assert (E : hvals (remove_hop_by_hop h) Te = None) by (rewrite remove_hop_spec; reflexivity).
    destruct (values_contain_token (hvals_nil (rq_hdr inp) Te) s_trailers);
    repeat match goal with
    | |- context [match ?c with inl _ => _ | inr _ => _ end] => destruct c as [[? ?]|?]
    | |- context [match hvals ?a ?b with _ => _ end] => destruct (hvals a b) as [[|? ?]|]
    | |- context [if ?c then _ else _] => destruct c
    end; hs; try exact E; reflexivity. Qed.

  Lemma tail_connection : hvals (rq_hdr o) Connection = if is_nil up then None else Some [Upgrade].
  Proof. unfold rp_director_tail in Htail. fold h up in Htail.
    destruct (is_print up); cbn [negb] in Htail; [|discriminate]. inv Htail. cbn [rq_hdr with_hdr].
    assert (E : hvals (remove_hop_by_hop h) Connection = None) by (rewrite remove_hop_spec; reflexivity).
    destruct (is_nil up);
    repeat match goal with
    | |- context [match ?c with inl _ => _ | inr _ => _ end] => destruct c as [[? ?]|?]
    | |- context [match hvals ?a ?b with _ => _ end] => destruct (hvals a b) as [[|? ?]|]
    | |- context [if ?c then _ else _] => destruct c
    end; hs; try exact E; reflexivity. Qed.

  Lemma tail_upgrade : hvals (rq_hdr o) Upgrade = if is_nil up then None else Some [up].
  Proof. unfold rp_director_tail in Htail. fold h up in Htail.
    destruct (is_print up); cbn [negb] in Htail; [|discriminate]. inv Htail. cbn [rq_hdr with_hdr].
    assert (E : hvals (remove_hop_by_hop h) Upgrade = None) by (rewrite remove_hop_spec; reflexivity).
    destruct (is_nil up);
    repeat match goal with
    | |- context [match ?c with inl _ => _ | inr _ => _ end] => destruct c as [[? ?]|?]
    | |- context [match hvals ?a ?b with _ => _ end] => destruct (hvals a b) as [[|? ?]|]
    | |- context [if ?c then _ else _] => destruct c
    end; hs; try exact E; reflexivity. Qed.

  Lemma tail_user_agent :
    hvals (rq_hdr o) UserAgent =
    match hvals (remove_hop_by_hop h) UserAgent with None => Some [[]] | Some vs => Some vs end.
  Proof. unfold rp_director_tail in Htail. fold h up in Htail.
    destruct (is_print up); cbn [negb] in Htail; [|discriminate]. inv Htail. cbn [rq_hdr with_hdr].
    match goal with |- context [match hvals ?a UserAgent with _ => _ end] => set (h4 := a) end.
    assert (E : hvals h4 UserAgent = hvals (remove_hop_by_hop h) UserAgent).
    { subst h4.
      repeat match goal with
      | |- context [match ?c with inl _ => _ | inr _ => _ end] => destruct c as [[? ?]|?]
      | |- context [match hvals ?a ?b with _ => _ end] => destruct (hvals a b) as [[|? ?]|]
      | |- context [if ?c then _ else _] => destruct c
      end; hs; reflexivity. }
    rewrite <- E. destruct (hvals h4 UserAgent) eqn:E4; hs; [exact E4|reflexivity]. Qed.

  Lemma tail_xff :
    hvals (rq_hdr o) XForwardedFor =
    match split_host_port (rq_remote inp) with
    | inl (ip, _) =>
        match hvals (remove_hop_by_hop h) XForwardedFor with
        | Some [] => Some []
        | Some prior => Some [join_with s_comma_space prior ++ s_comma_space ++ ip]
        | None => Some [ip]
        end
    | inr _ => hvals (remove_hop_by_hop h) XForwardedFor
    end.
  Proof. unfold rp_director_tail in Htail. fold h up in Htail.
    destruct (is_print up); cbn [negb] in Htail; [|discriminate]. inv Htail. cbn [rq_hdr with_hdr].
    match goal with |- context [match hvals ?a XForwardedFor with _ => _ end] => set (h3 := a) end.
    assert (E : hvals h3 XForwardedFor = hvals (remove_hop_by_hop h) XForwardedFor).
    { subst h3. repeat match goal with |- context [if ?c then _ else _] => destruct c end; hs; reflexivity. }
    rewrite <- E. destruct (split_host_port (rq_remote inp)) as [[ip p]|e].
    - destruct (hvals h3 XForwardedFor) as [[|v vs]|] eqn:E3;
      repeat match goal with |- context [match hvals ?a UserAgent with _ => _ end] => destruct (hvals a UserAgent) end;
      hs; try exact E3; reflexivity.
    - repeat match goal with |- context [match hvals ?a UserAgent with _ => _ end] => destruct (hvals a UserAgent) end;
      hs; reflexivity. Qed.

  Lemma wf_tail : wf_headers h -> wf_headers (rq_hdr o).
  Proof. intros H. unfold rp_director_tail in Htail. fold h up in Htail.
    destruct (is_print up); cbn [negb] in Htail; [|discriminate]. inv Htail. cbn [rq_hdr with_hdr].
    pose proof (wf_remove_hop _ H) as H1.
    repeat match goal with
    | |- context [match ?c with inl _ => _ | inr _ => _ end] => destruct c as [[? ?]|?]
    | |- context [match hvals ?a ?b with _ => _ end] => destruct (hvals a b) as [[|? ?]|]
    | |- context [if ?c then _ else _] => destruct c
    end; repeat apply wf_hput; exact H1. Qed.
End Tail.

(* ---------- the whole request path ---------- *)
Section Path.
  Variable parse : bytes -> option url3.
  Variable pass_host : bool.
  Variable hostname : bytes.
  Variables r o : req.
  Hypothesis Hfwd : forward_request parse pass_host hostname r = Some o.

  Let d := director parse pass_host hostname r.
  Let hin := rq_hdr r.

  Lemma path_tail : rp_director_tail r d = Some o.
  Proof. exact Hfwd. Qed.

  Lemma path_dhdr : rq_hdr d = director_hdr hostname r.
  Proof. apply director_fields. Qed.

  Lemma path_url : rq_url o = get_url_from_request parse r.
  Proof. destruct (tail_fields _ _ _ path_tail) as (A & _). rewrite A. apply director_fields. Qed.

  Lemma path_fields :
    rq_uri o = [] /\ rq_proto o = 11 /\ rq_url_host o = rq_url_host r /\
    rq_host o = (if pass_host then rq_host r else rq_url_host r).
  Proof. destruct (tail_fields _ _ _ path_tail) as (_ & A & B & C & D & _).
    destruct (director_fields parse pass_host hostname r) as (_ & A' & B' & C' & _ & _ & D' & _). fold d in A', B', C', D'.
    rewrite A, B, C, D. auto. Qed.

  (* what removeHopByHopHeaders leaves of a key that is not hop-by-hop, in terms of the client's request *)
  Lemma path_hop_other k :
    existsb (fun k' => beq k' k) hop_headers = false ->
    existsb (fun o => negb (is_nil (trim_string o)) && beq (rp_name o) k) (filter keep (connection_options hin)) = false ->
    hvals (remove_hop_by_hop (rq_hdr d)) k = hvals (director_hdr hostname r) k.
  Proof. intros Hh Hn. rewrite remove_hop_spec, Hh, path_dhdr, director_hdr_options. fold hin. rewrite Hn. reflexivity. Qed.

  (* end-to-end headers *)
  Lemma path_end_to_end k :
    is_xheader k = false -> existsb (fun k' => beq k' k) hop_headers = false -> beq UserAgent k = false ->
    existsb (fun o => negb (is_nil (trim_string o)) && beq (rp_name o) k) (connection_options hin) = false ->
    hvals (rq_hdr o) k = hvals hin k.
  Proof. intros Hx Hh Hua Hn. destruct (is_xheader_false_beq _ Hx) as (_ & Hxff & _).
    assert (Hh' := Hh). unfold hop_headers in Hh'. cbn [existsb] in Hh'.
    repeat (apply orb_false_elim in Hh'; destruct Hh' as [?Hk Hh']).
    rewrite (tail_other _ _ _ path_tail) by assumption.
    rewrite path_hop_other by (try assumption; apply existsb_filter_false; exact Hn).
    apply director_hdr_other; assumption. Qed.

  Lemma path_user_agent :
    existsb (fun o => negb (is_nil (trim_string o)) && beq (rp_name o) UserAgent) (connection_options hin) = false ->
    hvals (rq_hdr o) UserAgent = match hvals hin UserAgent with None => Some [[]] | Some vs => Some vs end.
  Proof. intros Hn. rewrite (tail_user_agent _ _ _ path_tail).
    rewrite path_hop_other by (try reflexivity; apply existsb_filter_false; exact Hn).
    rewrite director_hdr_other by reflexivity. reflexivity. Qed.

  (* headers the client named in Connection *)
  Lemma path_named_removed opt :
    In opt (connection_options hin) -> keep opt = true -> trim_string opt <> [] ->
    let k := rp_name opt in
    beq Te k = false -> beq Connection k = false -> beq Upgrade k = false -> beq UserAgent k = false ->
    hvals (rq_hdr o) k = None.
  Proof. intros Hin Hk Hne k H1 H2 H3 H4.
    assert (Hx : is_xheader k = false).
    { destruct (is_xheader k) eqn:E; [|reflexivity]. unfold k, rp_name in E.
      unfold keep, opt_name in Hk. rewrite (xheader_trims_agree _ E), E in Hk. discriminate. }
    destruct (is_xheader_false_beq _ Hx) as (_ & Hxff & _).
    rewrite (tail_other _ _ _ path_tail) by assumption.
    rewrite remove_hop_spec. destruct (existsb (fun k' => beq k' k) hop_headers); [reflexivity|].
    rewrite path_dhdr, director_hdr_options. fold hin.
    replace (existsb (fun o0 => negb (is_nil (trim_string o0)) && beq (rp_name o0) k) (filter keep (connection_options hin)))
      with true; [reflexivity|].
    symmetry. apply existsb_exists. exists opt. split; [apply filter_In; auto|].
    fold k. rewrite beq_refl, andb_true_r. destruct (trim_string opt); [congruence|reflexivity]. Qed.

  (* hop-by-hop headers *)
  Lemma path_hop k : In k hop_headers -> beq Te k = false -> beq Connection k = false -> beq Upgrade k = false ->
    hvals (rq_hdr o) k = None.
  Proof. intros Hin H1 H2 H3.
    assert (E : existsb (fun k' => beq k' k) hop_headers = true).
    { apply existsb_exists. exists k. split; [exact Hin|apply beq_refl]. }
    rewrite (tail_other _ _ _ path_tail); try assumption.
    - rewrite remove_hop_spec, E. reflexivity.
    - unfold hop_headers in Hin. cbn in Hin.
      repeat (destruct Hin as [<-|Hin]; [reflexivity|]). destruct Hin.
    - unfold hop_headers in Hin. cbn in Hin.
      repeat (destruct Hin as [<-|Hin]; [reflexivity|]). destruct Hin. Qed.

  (* forwarding headers other than X-Forwarded-For pass the post-Director stage untouched *)
  Lemma path_xheader k : is_xheader k = true -> beq XForwardedFor k = false ->
    hvals (rq_hdr o) k = hvals (director_hdr hostname r) k.
  Proof. intros Hx Hxff.
    assert (Hk : beq Te k = false /\ beq Connection k = false /\ beq Upgrade k = false /\ beq UserAgent k = false /\
                 existsb (fun k' => beq k' k) hop_headers = false).
    { unfold is_xheader, x_headers in Hx. cbn [existsb] in Hx.
      repeat (apply orb_prop in Hx; destruct Hx as [Hx|Hx]; [apply beq_eq in Hx; subst k; repeat split; reflexivity|]).
      discriminate. }
    destruct Hk as (H1 & H2 & H3 & H4 & H5).
    rewrite (tail_other _ _ _ path_tail) by assumption.
    apply path_hop_other; [exact H5|apply kept_options_spare_xheaders; exact Hx]. Qed.

  Lemma path_xff_before_append :
    hvals (remove_hop_by_hop (rq_hdr d)) XForwardedFor = if named hin XForwardedFor then None else hvals hin XForwardedFor.
  Proof. rewrite path_hop_other by (try reflexivity; apply kept_options_spare_xheaders; reflexivity).
    unfold director_hdr. rewrite rewrite_other by reflexivity. cbn. apply dfco_xheader. reflexivity. Qed.

  Lemma path_wf : wf_headers hin -> wf_headers (rq_hdr o).
  Proof. intros H. apply (wf_tail _ _ _ path_tail). rewrite path_dhdr. apply wf_director_hdr. exact H. Qed.
End Path.

(* ---------- the backend's view of the header map ---------- *)
Lemma hvals_filter_wf (P : bytes * list bytes -> bool) h k :
  wf_headers h -> hvals (filter P h) k = match hvals h k with Some vs => if P (k, vs) then Some vs else None | None => None end.
Proof. unfold wf_headers. induction h as [|[k0 vs0] h IH]; cbn; intros H; [reflexivity|]. inv H.
  destruct (beq k0 k) eqn:E.
  - apply beq_eq in E. subst k0. destruct (P (k, vs0)) eqn:EP; cbn; [rewrite beq_refl; reflexivity|].
    rewrite (IH H3). destruct (hvals h k) as [vs|] eqn:Eh; [|reflexivity].
    exfalso. apply H2. assert (Hwf : wf_headers h) by exact H3. apply (hvals_In _ _ _ Hwf) in Eh.
    change k with (fst (k, vs)). apply in_map. exact Eh.
  - destruct (P (k0, vs0)); cbn; [rewrite E|]; apply IH; exact H3. Qed.

Lemma keys_filter_incl (P : bytes * list bytes -> bool) (h : headers) x : In x (map fst (filter P h)) -> In x (map fst h).
Proof. induction h as [|e h IH]; cbn; [tauto|]. destruct (P e); cbn; tauto. Qed.

Lemma wf_filter (P : bytes * list bytes -> bool) h : wf_headers h -> wf_headers (filter P h).
Proof. unfold wf_headers. induction h as [|e h IH]; cbn; intros H; [constructor|]. inv H.
  destruct (P e); cbn; [constructor; [intros Hin; apply keys_filter_incl in Hin; tauto|]|]; apply IH; assumption. Qed.

Definition backend_headers (h : headers) : headers := sort_headers (wire_headers h).

(* a key that Request.write copies from the map: the backend reads the same values, unless there are none *)
Lemma backend_headers_other h k :
  wf_headers h -> existsb (beq k) write_excluded = false ->
  hvals (backend_headers h) k = match hvals h k with Some [] => None | x => x end.
Proof. intros Hwf Hk. unfold backend_headers.
  set (P := fun e : bytes * list bytes => negb (existsb (beq (fst e)) write_excluded) && negb (is_nil (snd e))).
  assert (Hua : beq UserAgent k = false).
  { unfold write_excluded in Hk. cbn [existsb] in Hk. repeat (apply orb_false_elim in Hk; destruct Hk as [?H Hk]).
    rewrite beq_sym. assumption. }
  assert (Hrest : hvals (filter P h) k = match hvals h k with Some [] => None | x => x end).
  { rewrite hvals_filter_wf by exact Hwf. destruct (hvals h k) as [vs|]; [|reflexivity].
    unfold P. cbn [fst snd]. rewrite Hk. destruct vs; reflexivity. }
  assert (Hwfw : wf_headers (wire_headers h)).
  { unfold wire_headers. fold P. destruct (is_nil (hget h UserAgent)); [apply wf_filter; exact Hwf|].
    unfold wf_headers. rewrite map_app. cbn. eapply Permutation_NoDup; [apply Permutation_cons_append|].
    constructor; [|apply wf_filter; exact Hwf].
    intros Hin. apply in_map_iff in Hin. destruct Hin as ([k0 vs0] & E & Hin). cbn in E. subst k0.
    apply filter_In in Hin. destruct Hin as [_ HP]. unfold P in HP. cbn in HP. discriminate. }
  rewrite (hvals_perm (wire_headers h)) by (try exact Hwfw; apply Permutation_sym, sort_headers_perm).
  unfold wire_headers. fold P. destruct (is_nil (hget h UserAgent)); [exact Hrest|].
  destruct (hvals (filter P h) k) as [vs|] eqn:E.
  - rewrite (hvals_app_some _ _ _ _ E). rewrite <- Hrest. reflexivity.
  - rewrite hvals_app_none by exact E. cbn [hvals]. rewrite Hua. exact Hrest. Qed.

(* User-Agent: the first value when it is not empty, else no User-Agent line at all *)
Lemma backend_headers_user_agent h :
  wf_headers h ->
  hvals (backend_headers h) UserAgent = if is_nil (hget h UserAgent) then None else Some [hget h UserAgent].
Proof. intros Hwf. unfold backend_headers.
  set (P := fun e : bytes * list bytes => negb (existsb (beq (fst e)) write_excluded) && negb (is_nil (snd e))).
  assert (Hnone : hvals (filter P h) UserAgent = None).
  { rewrite hvals_filter_wf by exact Hwf. destruct (hvals h UserAgent); reflexivity. }
  assert (Hwfw : wf_headers (wire_headers h)).
  { unfold wire_headers. fold P. destruct (is_nil (hget h UserAgent)); [apply wf_filter; exact Hwf|].
    unfold wf_headers. rewrite map_app. cbn. eapply Permutation_NoDup; [apply Permutation_cons_append|].
    constructor; [|apply wf_filter; exact Hwf].
    intros Hin. apply in_map_iff in Hin. destruct Hin as ([k0 vs0] & E & Hin). cbn in E. subst k0.
    apply filter_In in Hin. destruct Hin as [_ HP]. unfold P in HP. cbn in HP. discriminate. }
  rewrite (hvals_perm (wire_headers h)) by (try exact Hwfw; apply Permutation_sym, sort_headers_perm).
  unfold wire_headers. fold P. destruct (is_nil (hget h UserAgent)); [exact Hnone|].
  rewrite hvals_app_none by exact Hnone. cbn [hvals]. rewrite beq_refl. reflexivity. Qed.

Lemma wf_wire_headers h : wf_headers h -> wf_headers (wire_headers h).
Proof. intros Hwf. unfold wire_headers.
  set (P := fun e : bytes * list bytes => negb (existsb (beq (fst e)) write_excluded) && negb (is_nil (snd e))).
  destruct (is_nil (hget h UserAgent)); [apply wf_filter; exact Hwf|].
  unfold wf_headers. rewrite map_app. cbn [map fst app]. eapply Permutation_NoDup; [apply Permutation_cons_append|].
  constructor; [|apply wf_filter; exact Hwf].
  intros Hin. apply in_map_iff in Hin. destruct Hin as ([k0 vs0] & E & Hin). cbn [fst] in E. subst k0.
  apply filter_In in Hin. destruct Hin as [_ HP]. unfold P in HP. cbn in HP. discriminate. Qed.

(* a key absent from the outgoing map is absent at the backend *)
Lemma backend_headers_none h k : wf_headers h -> hvals h k = None -> hvals (backend_headers h) k = None.
Proof. intros Hwf Hk. unfold backend_headers.
  rewrite (hvals_perm (wire_headers h)) by (try (apply wf_wire_headers; exact Hwf); apply Permutation_sym, sort_headers_perm).
  unfold wire_headers.
  set (P := fun e : bytes * list bytes => negb (existsb (beq (fst e)) write_excluded) && negb (is_nil (snd e))).
  assert (Hnone : hvals (filter P h) k = None) by (rewrite hvals_filter_wf by exact Hwf; rewrite Hk; reflexivity).
  destruct (is_nil (hget h UserAgent)) eqn:Eua; [exact Hnone|].
  rewrite hvals_app_none by exact Hnone. cbn [hvals]. destruct (beq UserAgent k) eqn:E; [|reflexivity].
  apply beq_eq in E. subst k. unfold hget in Eua. rewrite Hk in Eua. discriminate. Qed.

Section Path2.
  Variable parse : bytes -> option url3.
  Variable pass_host : bool.
  Variable hostname : bytes.
  Variables r o : req.
  Hypothesis Hfwd : forward_request parse pass_host hostname r = Some o.

  (* removeHopByHopHeaders deletes every header the client named, unless dropForwardingConnectionOptions dropped the option *)
  Lemma path_named_hop opt :
    In opt (connection_options (rq_hdr r)) -> keep opt = true -> trim_string opt <> [] ->
    hvals (remove_hop_by_hop (rq_hdr (director parse pass_host hostname r))) (rp_name opt) = None.
  Proof. intros Hin Hk Hne. rewrite remove_hop_spec.
    destruct (existsb (fun k' => beq k' (rp_name opt)) hop_headers); [reflexivity|].
    rewrite (path_dhdr parse pass_host hostname r), director_hdr_options.
    replace (existsb (fun o0 => negb (is_nil (trim_string o0)) && beq (rp_name o0) (rp_name opt))
               (filter keep (connection_options (rq_hdr r)))) with true; [reflexivity|].
    symmetry. apply existsb_exists. exists opt. split; [apply filter_In; auto|].
    rewrite beq_refl, andb_true_r. destruct (trim_string opt); [congruence|reflexivity]. Qed.

  Lemma path_named_user_agent opt :
    In opt (connection_options (rq_hdr r)) -> keep opt = true -> trim_string opt <> [] -> rp_name opt = UserAgent ->
    hvals (rq_hdr o) UserAgent = Some [[]].
  Proof. intros Hin Hk Hne E. rewrite (tail_user_agent _ _ _ (path_tail _ _ _ _ _ Hfwd)).
    rewrite <- E. rewrite path_named_hop by assumption. reflexivity. Qed.
End Path2.

(* ---------- the protocol-upgrade request survives the Director unchanged ---------- *)
Lemma existsb_flat_map {A B} (f : B -> bool) (g : A -> list B) l :
  existsb f (flat_map g l) = existsb (fun x => existsb f (g x)) l.
Proof. induction l as [|x l IH]; cbn; [reflexivity|]. rewrite existsb_app, IH. reflexivity. Qed.

Lemma existsb_filter_same {A} (f g : A -> bool) l :
  (forall x, f x = true -> g x = true) -> existsb f (filter g l) = existsb f l.
Proof. intros H. induction l as [|x l IH]; cbn; [reflexivity|]. destruct (g x) eqn:Eg; cbn; rewrite IH; [reflexivity|].
  destruct (f x) eqn:Ef; [|reflexivity]. rewrite (H x Ef) in Eg. discriminate. Qed.

Lemma values_contain_token_options h tok :
  values_contain_token (hvals_nil h Connection) tok =
  existsb (fun p => token_equal (trim_string p) tok) (connection_options h).
Proof. unfold values_contain_token, value_contains_token, connection_options. symmetry. apply existsb_flat_map. Qed.

Definition is_letter (c : Z) : bool := is_upper c || is_lower c.

Lemma lower_eq_letter a b : is_letter b = true -> lower_ascii a = lower_ascii b -> is_letter a = true.
Proof. unfold is_letter, lower_ascii, is_upper, is_lower.
  repeat match goal with |- context [?x <=? ?y] => destruct (Z.leb_spec x y) end; cbn; intros; try discriminate; try reflexivity; lia. Qed.

Lemma letter_token a : is_letter a = true -> is_token_byte a = true.
Proof. unfold is_letter, is_token_byte. intros H. rewrite H. reflexivity. Qed.

Lemma token_equal_tokens t u : forallb is_letter u = true -> token_equal t u = true -> forallb is_token_byte t = true.
Proof. revert u; induction t as [|a t IH]; intros [|b u]; cbn; try discriminate; [reflexivity|].
  intros Hu H. apply andb_prop in Hu. destruct Hu as [Hb Hu]. apply andb_prop in H. destruct H as [H Ht].
  apply andb_prop in H. destruct H as [_ Hl]. apply Z.eqb_eq in Hl.
  rewrite (letter_token a (lower_eq_letter a b Hb Hl)). cbn. exact (IH u Hu Ht). Qed.

Lemma tokens_trims_agree o : forallb is_token_byte (trim_string o) = true -> trim_space o = trim_string o.
Proof. intros H. destruct (trim_decomp is_ows o) as (w0 & w & E & H0 & Hw). fold (trim_string o) in E.
  unfold trim_space. rewrite E at 1. apply trim_sandwich.
  - eapply forallb_impl; [apply ows_is_space|exact H0].
  - eapply forallb_impl; [apply ows_is_space|exact Hw].
  - intros x Hx. destruct (is_space x) eqn:Ex; [|reflexivity]. apply space_not_token in Ex.
    rewrite forallb_forall in H. rewrite (H x Hx) in Ex. discriminate. Qed.

Lemma upgrade_token_kept o : token_equal (trim_string o) Upgrade = true -> keep o = true.
Proof. intros H. assert (Ht := token_equal_tokens (trim_string o) Upgrade eq_refl H).
  unfold keep, opt_name. rewrite (tokens_trims_agree _ Ht).
  destruct (trim_string o) as [|a t]; [discriminate|].
  unfold canon_key. rewrite Ht. cbn [canon_go andb negb].
  assert (Ha : a = 85 \/ a = 117).
  { unfold Upgrade in H. cbn [token_equal] in H. apply andb_prop in H. destruct H as [H _]. apply andb_prop in H.
    destruct H as [_ H]. apply Z.eqb_eq in H. revert H. unfold lower_ascii, is_upper.
    repeat match goal with |- context [?x <=? ?y] => destruct (Z.leb_spec x y) end; cbn; intros; lia. }
  destruct Ha as [-> | ->]; reflexivity. Qed.

Lemma director_upgrade_type hn r : upgrade_type (director_hdr hn r) = upgrade_type (rq_hdr r).
Proof. unfold upgrade_type. rewrite !values_contain_token_options, director_hdr_options.
  rewrite existsb_filter_same by (intros o; apply upgrade_token_kept).
  unfold hget. rewrite director_hdr_other by reflexivity. reflexivity. Qed.

(* ---------- the statements of Props/C08.v ---------- *)
(* what an upstream proxy supplied under header k and the client did not declare hop-by-hop in Connection
   (`named`: some Connection option, trimmed and canonicalised as dropForwardingConnectionOptions does, equals k) *)
Definition upstream (h : headers) (k : bytes) : option (list bytes) := if named h k then None else hvals h k.
Definition upstream_value (h : headers) (k : bytes) : bytes := match upstream h k with Some (v :: _) => v | _ => [] end.


Section Target.
  Variable parse : bytes -> option url3.          
  Variable esc : bytes -> bytes -> bytes.         
  Variable valid_target : bytes -> Prop.          
  Variable path_query : bytes -> bytes.           
  Hypothesis net_url_round_trip :
    forall t u, valid_target t -> parse t = Some u -> wire_target esc u = path_query t.

  
  Lemma c08_target_fidelity : forall pass_host hostname r o,
    forward_request parse pass_host hostname r = Some o ->
    (rq_uri r <> [] -> valid_target (rq_uri r) -> parse (rq_uri r) <> None ->
       wire_target esc (rq_url o) = path_query (rq_uri r)) /\
    (rq_uri r = [] \/ parse (rq_uri r) = None -> rq_url o = rq_url r).
  Proof. intros ph hn r o H. rewrite (path_url _ _ _ _ _ H). unfold get_url_from_request. split.
    - intros Hne Hv Hp. destruct (rq_uri r) as [|c t] eqn:E; [congruence|]. cbn [is_nil].
      destruct (parse (c :: t)) as [u|] eqn:Ep; [|congruence]. apply net_url_round_trip; assumption.
    - intros [->|Hp]; [reflexivity|]. rewrite Hp. destruct (rq_uri r); reflexivity. Qed.
End Target.

Lemma c08_backend_view : forall h, wf_headers h ->
  (forall k, existsb (beq k) write_excluded = false ->
     hvals (backend_headers h) k = match hvals h k with Some [] => None | x => x end) /\
  (forall k, hvals h k = None -> hvals (backend_headers h) k = None) /\
  hvals (backend_headers h) UserAgent = (if is_nil (hget h UserAgent) then None else Some [hget h UserAgent]).
Proof. intros h Hwf. split; [|split].
  - intros k Hk. apply backend_headers_other; assumption.
  - intros k Hk. apply backend_headers_none; assumption.
  - apply backend_headers_user_agent; assumption. Qed.

Lemma c08_no_hop_by_hop : forall parse pass_host hostname r o,
  forward_request parse pass_host hostname r = Some o -> wf_headers (rq_hdr r) ->
  let up := upgrade_type (rq_hdr r) in     (* the client's Upgrade value when its Connection lists the token "upgrade" *)
  let b := backend_headers (rq_hdr o) in
  (forall k, In k hop_headers -> beq Te k = false -> beq Connection k = false -> beq Upgrade k = false ->
     hvals (rq_hdr o) k = None /\ hvals b k = None) /\
  hvals (rq_hdr o) Te = (if values_contain_token (hvals_nil (rq_hdr r) Te) s_trailers then Some [s_trailers] else None) /\
  hvals (rq_hdr o) Connection = (if is_nil up then None else Some [Upgrade]) /\
  hvals (rq_hdr o) Upgrade = (if is_nil up then None else Some [up]) /\
  is_print up = true /\
  (forall opt, In opt (connection_options (rq_hdr r)) -> keep opt = true -> trim_string opt <> [] ->
     let k := rp_name opt in
     beq Te k = false -> beq Connection k = false -> beq Upgrade k = false -> hvals b k = None).
Proof. intros parse ph hn r o H Hwf up b. pose proof (path_wf _ _ _ _ _ H Hwf) as Hwfo.
  pose proof (path_tail _ _ _ _ _ H) as Ht. pose proof (path_dhdr parse ph hn r) as Hd.
  split; [|split; [|split; [|split; [|split]]]].
  - intros k Hin H1 H2 H3. assert (E := path_hop _ _ _ _ _ H k Hin H1 H2 H3). split; [exact E|].
    apply backend_headers_none; assumption.
  - apply (tail_te _ _ _ Ht).
  - rewrite (tail_connection _ _ _ Ht), Hd, director_upgrade_type. reflexivity.
  - rewrite (tail_upgrade _ _ _ Ht), Hd, director_upgrade_type. reflexivity.
  - destruct (tail_fields _ _ _ Ht) as (_ & _ & _ & _ & _ & P). rewrite Hd, director_upgrade_type in P. exact P.
  - intros opt Hin Hk Hne k H1 H2 H3. destruct (beq UserAgent k) eqn:Eua.
    + apply beq_eq in Eua. unfold b. rewrite <- Eua. rewrite backend_headers_user_agent by exact Hwfo.
      unfold hget. rewrite (path_named_user_agent _ _ _ _ _ H opt) by (try assumption; symmetry; exact Eua). reflexivity.
    + apply backend_headers_none; [exact Hwfo|]. apply (path_named_removed _ _ _ _ _ H); assumption. Qed.

Lemma c08_end_to_end_preserved : forall parse pass_host hostname r o,
  forward_request parse pass_host hostname r = Some o -> wf_headers (rq_hdr r) ->
  let not_named k :=
    existsb (fun opt => negb (is_nil (trim_string opt)) && beq (rp_name opt) k) (connection_options (rq_hdr r)) = false in
  (forall k, is_xheader k = false -> existsb (fun k' => beq k' k) hop_headers = false -> beq UserAgent k = false ->
     not_named k ->
     hvals (rq_hdr o) k = hvals (rq_hdr r) k /\
     (existsb (beq k) write_excluded = false ->
        hvals (backend_headers (rq_hdr o)) k = match hvals (rq_hdr r) k with Some [] => None | x => x end)) /\
  (not_named UserAgent ->
     hvals (backend_headers (rq_hdr o)) UserAgent =
       if is_nil (hget (rq_hdr r) UserAgent) then None else Some [hget (rq_hdr r) UserAgent]).
Proof. intros parse ph hn r o H Hwf not_named. pose proof (path_wf _ _ _ _ _ H Hwf) as Hwfo. split.
  - intros k Hx Hh Hua Hn. assert (E := path_end_to_end _ _ _ _ _ H k Hx Hh Hua Hn). split; [exact E|].
    intros Hk. rewrite backend_headers_other by assumption. rewrite E. reflexivity.
  - intros Hn. rewrite backend_headers_user_agent by exact Hwfo.
    unfold hget. rewrite (path_user_agent _ _ _ _ _ H Hn).
    destruct (hvals (rq_hdr r) UserAgent) as [[|v vs]|]; reflexivity. Qed.

Lemma c08_forwarded_describe_connection : forall parse pass_host hostname r o,
  forward_request parse pass_host hostname r = Some o ->
  let h := rq_hdr r in
  let proto := if is_nil (upstream_value h XForwardedProto) then scheme_of (rq_tls r) else upstream_value h XForwardedProto in
  hvals (rq_hdr o) XForwardedProto =
    (if is_nil (upstream_value h XForwardedProto) then Some [scheme_of (rq_tls r)] else upstream h XForwardedProto) /\
  hvals (rq_hdr o) XForwardedPort =
    (if is_nil (upstream_value h XForwardedPort) then Some [port_of (rq_host r) proto (rq_tls r)]
     else upstream h XForwardedPort) /\
  hvals (rq_hdr o) XForwardedHost =
    (if is_nil (upstream_value h XForwardedHost) && negb (is_nil (rq_host r)) then Some [rq_host r]
     else upstream h XForwardedHost) /\
  hvals (rq_hdr o) XRealIp =
    match split_host_port (rq_remote r) with
    | inl (ip, _) => if is_nil (upstream_value h XRealIp) then Some [ipv6fix ip] else upstream h XRealIp
    | inr _ => upstream h XRealIp
    end /\
  hvals (rq_hdr o) XForwardedServer = (if is_nil hostname then upstream h XForwardedServer else Some [hostname]).
Proof. intros parse ph hn r o H h proto.
  assert (Up : forall k, is_xheader k = true ->
            hvals (drop_forwarding_connection_options (rq_hdr r)) k = upstream h k /\
            hget (drop_forwarding_connection_options (rq_hdr r)) k = upstream_value h k).
  { intros k Hx. unfold upstream_value, upstream, hget. rewrite dfco_xheader by exact Hx. split; reflexivity. }
  repeat split.
  - rewrite (path_xheader _ _ _ _ _ H) by reflexivity. unfold director_hdr. rewrite rewrite_proto. cbn [rq_hdr rq_tls with_hdr].
    destruct (Up XForwardedProto eq_refl) as [-> ->]. reflexivity.
  - rewrite (path_xheader _ _ _ _ _ H) by reflexivity. unfold director_hdr. rewrite rewrite_port.
    unfold final_proto. cbn [rq_hdr rq_tls rq_host with_hdr].
    destruct (Up XForwardedPort eq_refl) as [-> ->]. destruct (Up XForwardedProto eq_refl) as [_ ->]. reflexivity.
  - rewrite (path_xheader _ _ _ _ _ H) by reflexivity. unfold director_hdr. rewrite rewrite_host. cbn [rq_hdr rq_host with_hdr].
    destruct (Up XForwardedHost eq_refl) as [-> ->]. reflexivity.
  - rewrite (path_xheader _ _ _ _ _ H) by reflexivity. unfold director_hdr. rewrite rewrite_real_ip. cbn [rq_hdr rq_remote with_hdr].
    destruct (Up XRealIp eq_refl) as [-> ->]. reflexivity.
  - rewrite (path_xheader _ _ _ _ _ H) by reflexivity. unfold director_hdr. rewrite rewrite_server. cbn [rq_hdr with_hdr].
    destruct (Up XForwardedServer eq_refl) as [-> _]. reflexivity. Qed.

Lemma c08_xff_append : forall parse pass_host hostname r o,
  forward_request parse pass_host hostname r = Some o ->
  hvals (rq_hdr o) XForwardedFor =
  match split_host_port (rq_remote r) with
  | inl (ip, _) =>
      match upstream (rq_hdr r) XForwardedFor with
      | Some [] => Some []
      | Some prior => Some [join_with s_comma_space prior ++ s_comma_space ++ ip]
      | None => Some [ip]
      end
  | inr _ => upstream (rq_hdr r) XForwardedFor
  end.
Proof. intros parse ph hn r o H. rewrite (tail_xff _ _ _ (path_tail _ _ _ _ _ H)).
  rewrite (path_xff_before_append parse ph hn r). reflexivity. Qed.

Lemma c08_proto_host : forall parse pass_host hostname r o,
  forward_request parse pass_host hostname r = Some o ->
  rq_proto o = 11 /\ rq_uri o = [] /\ rq_url_host o = rq_url_host r /\
  wire_host o = (if pass_host then (if is_nil (rq_host r) then rq_url_host r else rq_host r) else rq_url_host r).
Proof. intros parse ph hn r o H. destruct (path_fields _ _ _ _ _ H) as (A & B & C & D).
  repeat split; try assumption. unfold wire_host. rewrite C, D. destruct ph; [reflexivity|].
  destruct (is_nil (rq_url_host r)); reflexivity. Qed.
