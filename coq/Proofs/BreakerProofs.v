(* Lemmas about the circuit-breaker model (Model/Breaker.v) for C05, C12 and C18. *)
From Coq Require Import QArith.
From Oxy Require Import Base.Prelude Model.Breaker.
Open Scope Z_scope.

(* ------------------------------------------------------------------ histories *)
Definition tick_ok (o : op) : Prop := match o with Tick d => 0 <= d | _ => True end.
Definition ticks_nonneg (ops : list op) : Prop := Forall tick_ok ops.

Ltac unf := unfold step, arrive, arrive_mid, recovering_branch, set_recovering, allow_request, record,
  set_state, with_rc, with_log, with_lastCheck, with_now, new_ramp in *.
Ltac fld := cbn [now state until lastCheck rc log nTripped nStandby rstart rdur allowed denied fst snd].

(* ------------------------------------------------------------------ the sections of checkAndSet *)
Lemma check_locked_skip c s h lats : now s < lastCheck s -> check_locked c s h lats = s.
Proof. intros H. unfold check_locked. destruct (Z.ltb_spec (now s) (lastCheck s)); [reflexivity|lia]. Qed.

Lemma check_locked_run c s h lats : lastCheck s <= now s ->
  let s2 := with_lastCheck s (now s + checkP c) in
  check_locked c s h lats =
    match state s with
    | Tripped => s2
    | _ => if decide (eval (cond c) (log s) (now s) lats) (has_tie (cond c) (log s) (now s) lats) h
           then with_log (set_state s2 Tripped (now s + fallbackD c)) [] else s2
    end.
Proof. intros H s2. unfold check_locked. destruct (Z.ltb_spec (now s) (lastCheck s)); [lia|reflexivity]. Qed.

Lemma complete_not_due c s code h lats : now s <= lastCheck s -> complete c s code h lats = record s code.
Proof.
  intros H. unfold complete, check_and_set, record, with_log. fld.
  destruct (Z.ltb_spec (lastCheck s) (now s)); [lia|reflexivity].
Qed.

Lemma complete_due c s code h lats : lastCheck s < now s ->
  complete c s code h lats = check_locked c (record s code) h lats.
Proof.
  intros H. unfold complete, check_and_set, record, with_log. fld.
  destruct (Z.ltb_spec (lastCheck s) (now s)); [reflexivity|lia].
Qed.

(* case analysis of the locked section: skipped / run while tripped / run with the condition true / false *)
Ltac check_cases c s h lats :=
  let Hd := fresh "Hrun" in let Es := fresh "Es" in
  destruct (Z.lt_ge_cases (now s) (lastCheck s)) as [Hd|Hd];
  [rewrite (check_locked_skip c s h lats Hd)
  |rewrite (check_locked_run c s h lats Hd); cbv zeta;
   destruct (state s) eqn:Es; [destruct (decide _ _ h)| |destruct (decide _ _ h)]].

(* a Complete: not due (only the record) / due: the locked section on the state with the record *)
Ltac complete_cases c s code h lats :=
  let Hd := fresh "Hdue" in
  destruct (Z.le_gt_cases (now s) (lastCheck s)) as [Hd|Hd];
  [rewrite (complete_not_due c s code h lats Hd)
  |rewrite (complete_due c s code h lats Hd); check_cases c (record s code) h lats].

Lemma now_step c s o : tick_ok o -> now s <= now (fst (step c s o)).
Proof.
  destruct o as [h|code h lats|d| |code|h lats]; cbn [tick_ok]; intros Hd; cbn [step fst].
  - unf. cbn. destruct (state s); cbn; try lia. all: repeat (destr_if; cbn); try lia.
    all: destruct (ramp_cmp _ _) as [ex tie]; destruct (decide ex tie h); cbn; lia.
  - complete_cases c s code h lats; cbn; lia.
  - cbn. lia.
  - lia.
  - cbn. lia.
  - check_cases c s h lats; cbn; lia.
Qed.

Lemma now_exec c ops : forall s, ticks_nonneg ops -> now s <= now (exec (step c) s ops).
Proof.
  induction ops as [|o r IH]; intros s H; cbn; [lia|]. inv H.
  etransitivity; [apply (now_step c s o); assumption|]. apply IH; assumption.
Qed.

(* ------------------------------------------------------------------ C05: shield *)
Lemma arrive_tripped_fallback c s h : state s = Tripped -> now s < until s -> arrive c s h = (s, Fallback).
Proof. intros Hs Hn. unfold arrive. rewrite Hs. apply Z.ltb_lt in Hn. rewrite Hn. reflexivity. Qed.

Lemma tripped_step c s o : state s = Tripped -> tick_ok o -> now (fst (step c s o)) < until s ->
  state (fst (step c s o)) = Tripped /\ until (fst (step c s o)) = until s.
Proof.
  intros Hs Hd. destruct o as [h|code h lats|d| |code|h lats]; cbn [step fst].
  - intros Hn. assert (Hlt : now s < until s).
    { pose proof (now_step c s (Arrive h) I) as H. cbn [step] in H. lia. }
    rewrite (arrive_tripped_fallback c s h Hs Hlt). cbn. auto.
  - intros _. complete_cases c s code h lats; cbn in *; try congruence; auto.
  - intros _. unf. cbn. auto.
  - auto.
  - intros _. cbn. auto.
  - intros _. check_cases c s h lats; cbn in *; try congruence; auto.
Qed.

Lemma shield_exec c ops : forall s, state s = Tripped -> ticks_nonneg ops ->
  now (exec (step c) s ops) < until s ->
  state (exec (step c) s ops) = Tripped /\ until (exec (step c) s ops) = until s.
Proof.
  induction ops as [|o r IH]; intros s Hs Ht Hn; cbn in *; [auto|]. inv Ht.
  assert (Hstep : now (fst (step c s o)) < until s).
  { pose proof (now_exec c r (fst (step c s o)) H2). lia. }
  destruct (tripped_step c s o Hs H1 Hstep) as [A B].
  destruct (IH (fst (step c s o)) A H2) as [A' B']; [rewrite B; assumption|].
  split; [assumption|congruence].
Qed.

(* whatever step trips the breaker (a Complete or the locked section of a checkAndSet that saw its condition
   hold): until = now + fallback duration, metrics cleared, onTripped launched once *)
Lemma check_locked_trips c s h lats :
  state s <> Tripped -> state (check_locked c s h lats) = Tripped ->
  until (check_locked c s h lats) = now s + fallbackD c /\ now (check_locked c s h lats) = now s /\
  log (check_locked c s h lats) = [] /\ nTripped (check_locked c s h lats) = nTripped s + 1 /\
  nStandby (check_locked c s h lats) = nStandby s /\ lastCheck s <= now s /\
  lastCheck (check_locked c s h lats) = now s + checkP c /\
  decide (eval (cond c) (log s) (now s) lats) (has_tie (cond c) (log s) (now s) lats) h = true.
Proof.
  intros Hne. destruct (Z.lt_ge_cases (now s) (lastCheck s)) as [Hd|Hd].
  - rewrite (check_locked_skip c s h lats Hd). congruence.
  - rewrite (check_locked_run c s h lats Hd). cbv zeta.
    destruct (state s) eqn:Es; try congruence.
    all: destruct (decide _ _ h) eqn:Ed; cbn; try congruence; intros _; repeat split; auto; lia.
Qed.

Lemma step_trips c s o :
  state s <> Tripped -> state (fst (step c s o)) = Tripped ->
  until (fst (step c s o)) = now s + fallbackD c /\ now (fst (step c s o)) = now s /\
  log (fst (step c s o)) = [] /\ nTripped (fst (step c s o)) = nTripped s + 1 /\
  nStandby (fst (step c s o)) = nStandby s.
Proof.
  intros Hne. destruct o as [h|code h lats|d| |code|h lats]; cbn [step fst].
  - intros Hs. exfalso. revert Hs. unf. destruct (state s) eqn:Es; cbn; try congruence.
    + destruct (until s <? now s); cbn; try congruence.
      destruct (ramp_cmp _ _) as [ex tie]; destruct (decide ex tie h); cbn; congruence.
  - destruct (Z.le_gt_cases (now s) (lastCheck s)) as [Hd|Hd].
    + rewrite (complete_not_due c s code h lats Hd). cbn. congruence.
    + rewrite (complete_due c s code h lats Hd). intros Hs.
      destruct (check_locked_trips c (record s code) h lats) as (A & B & C & D & E & _); [exact Hne|exact Hs|].
      cbn in *. auto.
  - cbn. congruence.
  - congruence.
  - cbn. congruence.
  - intros Hs. destruct (check_locked_trips c s h lats Hne Hs) as (A & B & C & D & E & _). auto.
Qed.

Lemma shield c s o ops :
  state s <> Tripped -> state (fst (step c s o)) = Tripped -> ticks_nonneg ops ->
  let s2 := exec (step c) (fst (step c s o)) ops in
  now s2 < now s + fallbackD c ->
  state s2 = Tripped /\ until s2 = now s + fallbackD c /\ forall h', step c s2 (Arrive h') = (s2, Fallback).
Proof.
  intros Hne Htr Ht s2 Hn.
  destruct (step_trips c s o Hne Htr) as (Hu & _).
  destruct (shield_exec c ops _ Htr Ht) as [A B]; [rewrite Hu; exact Hn|].
  fold s2 in A, B. rewrite Hu in B. repeat split; auto.
  intros h'. cbn [step]. apply arrive_tripped_fallback; [assumption|lia].
Qed.

Lemma standby_passes c s h : state s = Standby -> step c s (Arrive h) = (s, Pass).
Proof. intros H. cbn. unfold arrive. rewrite H. reflexivity. Qed.

(* ------------------------------------------------------------------ C05: transition relation *)
Inductive edge : cbstate -> cbstate -> Prop :=
| edge_trip : edge Standby Tripped
| edge_recover : edge Tripped Recovering
| edge_standby : edge Recovering Standby
| edge_retrip : edge Recovering Tripped.

(* every consecutive pair of the list, starting from a, is a stutter or an edge *)
Fixpoint chain (a : cbstate) (l : list cbstate) : Prop :=
  match l with
  | [] => True
  | b :: r => (a = b \/ edge a b) /\ chain b r
  end.

Lemma last_cons {A} (b : A) r a : last (b :: r) a = last r b.
Proof. revert a b; induction r as [|x r IH]; intros a b; [reflexivity|]. change (last (x :: r) a = last (x :: r) b). rewrite (IH a x), (IH b x). reflexivity. Qed.

Lemma chain_app a l1 l2 : chain a l1 -> chain (last l1 a) l2 -> chain a (l1 ++ l2).
Proof.
  revert a; induction l1 as [|b r IH]; intros a; [cbn; auto|]. rewrite last_cons. cbn [app chain].
  intros [H1 H2] H3. split; [assumption|]. apply IH; assumption.
Qed.

(* all values of c.state during a history, in order *)
Fixpoint path (c : cfg) (s : st) (ops : list op) : list st :=
  match ops with
  | [] => []
  | o :: r => micro c s o ++ path c (fst (step c s o)) r
  end.

Lemma micro_last c s o : last (micro c s o) s = fst (step c s o).
Proof.
  destruct o; cbn [micro]; try reflexivity.
  rewrite last_last. reflexivity.
Qed.

Lemma micro_nonempty c s o : micro c s o <> [].
Proof. destruct o; cbn [micro]; try discriminate. destruct (arrive_mid c s); discriminate. Qed.

Lemma last_map_state (l : list st) (s : st) : last (map state l) (state s) = state (last l s).
Proof. induction l as [|x r IH]; [reflexivity|]. cbn [map]. destruct r; [reflexivity|]. exact IH. Qed.

Lemma micro_chain c s o : chain (state s) (map state (micro c s o)).
Proof.
  destruct o as [h|code h lats|d| |code|h lats]; cbn [micro step fst].
  - unf. destruct (state s) eqn:Es; cbn.
    + rewrite ?Es. auto.
    + destruct (now s <? until s); cbn; [rewrite ?Es; auto|].
      destruct (now s + recoveryD c <? now s); cbn.
      * split; [right; constructor|]. split; [right; constructor|exact I].
      * destruct (ramp_cmp _ _) as [ex tie]; destruct (decide ex tie h); cbn;
          (split; [right; constructor|]; split; [left; reflexivity|exact I]).
    + destruct (until s <? now s); cbn.
      * split; [right; constructor|exact I].
      * destruct (ramp_cmp _ _) as [ex tie]; destruct (decide ex tie h); cbn; rewrite ?Es; auto.
  - complete_cases c s code h lats; cbn in *; rewrite ?Es; auto.
    all: split; [right; constructor|exact I].
  - cbn. auto.
  - cbn. auto.
  - cbn. auto.
  - check_cases c s h lats; cbn in *; rewrite ?Es; auto.
    all: split; [right; constructor|exact I].
Qed.

Lemma path_chain c ops : forall s, chain (state s) (map state (path c s ops)).
Proof.
  induction ops as [|o r IH]; intros s; cbn [path map]; [exact I|].
  rewrite map_app. apply chain_app; [apply micro_chain|].
  rewrite last_map_state, micro_last. apply IH.
Qed.

Lemma last_app_gen {A} (l1 l2 : list A) a : last (l1 ++ l2) a = last l2 (last l1 a).
Proof. revert a; induction l1 as [|b r IH]; intros a; [reflexivity|]. cbn [app]. rewrite !last_cons. apply IH. Qed.

Lemma path_last c ops : forall s, last (path c s ops) s = exec (step c) s ops.
Proof.
  induction ops as [|o r IH]; intros s; cbn [path exec]; [reflexivity|].
  rewrite last_app_gen, micro_last. apply IH.
Qed.

(* ------------------------------------------------------------------ C18: side effects once per transition *)
Definition cb_eqb (a b : cbstate) : bool :=
  match a, b with Standby, Standby | Tripped, Tripped | Recovering, Recovering => true | _, _ => false end.

(* number of consecutive pairs (a, b) with a <> b = x: transitions into x *)
Fixpoint enters (x a : cbstate) (l : list cbstate) : Z :=
  match l with
  | [] => 0
  | b :: r => (if negb (cb_eqb a b) && cb_eqb b x then 1 else 0) + enters x b r
  end.

Lemma enters_app x a l1 l2 : enters x a (l1 ++ l2) = enters x a l1 + enters x (last l1 a) l2.
Proof.
  revert a; induction l1 as [|b r IH]; intros a; cbn [app enters]; [cbn; lia|].
  rewrite IH, last_cons. lia.
Qed.

Lemma micro_effects c s o :
  nTripped (fst (step c s o)) = nTripped s + enters Tripped (state s) (map state (micro c s o)) /\
  nStandby (fst (step c s o)) = nStandby s + enters Standby (state s) (map state (micro c s o)).
Proof.
  destruct o as [h|code h lats|d| |code|h lats]; cbn [micro step fst].
  - unf. destruct (state s) eqn:Es; cbn.
    + rewrite ?Es. cbn. lia.
    + destruct (now s <? until s); cbn; [rewrite ?Es; cbn; lia|].
      destruct (now s + recoveryD c <? now s); cbn; [lia|].
      destruct (ramp_cmp _ _) as [ex tie]; destruct (decide ex tie h); cbn; lia.
    + destruct (until s <? now s); cbn; [lia|].
      destruct (ramp_cmp _ _) as [ex tie]; destruct (decide ex tie h); cbn; rewrite ?Es; cbn; lia.
  - complete_cases c s code h lats; cbn in *; rewrite ?Es; cbn; try lia. all: destruct (state s); cbn; lia.
  - cbn. destruct (state s); cbn; lia.
  - cbn. destruct (state s); cbn; lia.
  - cbn. destruct (state s); cbn; lia.
  - check_cases c s h lats; cbn in *; rewrite ?Es; cbn; try lia. all: destruct (state s); cbn; lia.
Qed.

Lemma path_effects c ops : forall s,
  nTripped (exec (step c) s ops) = nTripped s + enters Tripped (state s) (map state (path c s ops)) /\
  nStandby (exec (step c) s ops) = nStandby s + enters Standby (state s) (map state (path c s ops)).
Proof.
  induction ops as [|o r IH]; intros s; cbn [path exec map]; [cbn; lia|].
  rewrite map_app, !enters_app, last_map_state, micro_last.
  destruct (IH (fst (step c s o))) as [A B]. destruct (micro_effects c s o) as [A' B']. lia.
Qed.

(* ------------------------------------------------------------------ C12: the ramp *)
Lemma decide_cases ex tie h : decide ex tie h = ex \/ tie = true.
Proof. destruct h as [b|]; cbn; [destruct tie|]; auto. Qed.

(* an arrival that reaches the ramp: recovering and not after until *)
Lemma ramp_arrival c s h : state s = Recovering -> now s <= until s -> 0 < rdur (rc s) ->
  let lhs := 2 * (allowed (rc s) + 1) * rdur (rc s) in
  let rhs := (now s - rstart (rc s)) * (allowed (rc s) + denied (rc s) + 1) in
  exists (r' : ramp) (b : bool), arrive c s h = (with_rc s r', if b then Pass else Fallback) /\
    rstart r' = rstart (rc s) /\ rdur r' = rdur (rc s) /\
    (b = true -> lhs <= rhs /\ allowed r' = allowed (rc s) + 1 /\ denied r' = denied (rc s)) /\
    (b = false -> rhs <= lhs /\ allowed r' = allowed (rc s) /\ denied r' = denied (rc s) + 1) /\
    (h = None -> (b = true <-> lhs < rhs)).
Proof.
  intros Hs Hu Hd lhs rhs. unfold arrive, recovering_branch. rewrite Hs.
  destruct (Z.ltb_spec (until s) (now s)); [lia|].
  unfold allow_request, ramp_cmp. destruct (Z.ltb_spec 0 (rdur (rc s))); [|lia]. fold lhs rhs.
  destruct (decide_cases (lhs <? rhs) (lhs =? rhs) h) as [E|E].
  - rewrite E. destruct (Z.ltb_spec lhs rhs).
    + eexists _, true. repeat split; cbn [rstart rdur allowed denied]; auto; try lia; try congruence.
    + eexists _, false. repeat split; cbn [rstart rdur allowed denied]; auto; try lia; try congruence.
  - pose proof E as E'. apply Z.eqb_eq in E'.
    assert (Hh : h = None -> decide (lhs <? rhs) (lhs =? rhs) h = false) by (intros ->; cbn; apply Z.ltb_ge; lia).
    destruct (decide (lhs <? rhs) (lhs =? rhs) h) eqn:Ed.
    + eexists _, true. repeat split; cbn [rstart rdur allowed denied]; auto; try lia; try congruence.
      all: intros; exfalso; match goal with Hn : _ = None |- _ => specialize (Hh Hn); discriminate end.
    + eexists _, false. repeat split; cbn [rstart rdur allowed denied]; auto; try lia; try congruence.
Qed.

Lemma Qfrac_ge_cross (a n e d : Z) : 0 < n -> 0 < d ->
  (e * n <= 2 * a * d <-> ((1 # 2) * inject_Z e / inject_Z d <= inject_Z a / inject_Z n)%Q).
Proof.
  intros Hn Hd. destruct n as [|n|n]; try lia. destruct d as [|d|d]; try lia.
  unfold Qle, Qdiv, Qmult, Qinv, inject_Z. cbn [Qnum Qden]. rewrite ?Pos2Z.inj_mul. lia.
Qed.

Lemma Qfrac_lt_cross (a n e d : Z) : 0 < n -> 0 < d ->
  (2 * a * d < e * n <-> (inject_Z a / inject_Z n < (1 # 2) * inject_Z e / inject_Z d)%Q).
Proof.
  intros Hn Hd. destruct n as [|n|n]; try lia. destruct d as [|d|d]; try lia.
  unfold Qlt, Qdiv, Qmult, Qinv, inject_Z. cbn [Qnum Qden]. rewrite ?Pos2Z.inj_mul. lia.
Qed.

Lemma ramp_cmp_fresh dur t : 0 <= dur -> ramp_cmp (new_ramp dur t) t = (false, false).
Proof.
  intros Hd. unfold ramp_cmp, new_ramp. fld. replace (t - t) with 0 by lia.
  destruct (Z.ltb_spec 0 dur).
  - f_equal; [apply Z.ltb_ge; lia|apply Z.eqb_neq; lia].
  - destruct (Z.eqb_spec dur 0); [reflexivity|lia].
Qed.

Lemma decide_ff h : decide false false h = false.
Proof. destruct h; reflexivity. Qed.

Lemma first_request_starts_recovery c s h : state s = Tripped -> until s <= now s -> 0 <= recoveryD c ->
  exists s', step c s (Arrive h) = (s', Fallback) /\ state s' = Recovering /\ until s' = now s + recoveryD c /\
    rc s' = {| rstart := now s; rdur := recoveryD c; allowed := 0; denied := 1 |} /\
    now s' = now s /\ nTripped s' = nTripped s /\ nStandby s' = nStandby s /\ log s' = log s /\ lastCheck s' = lastCheck s.
Proof.
  intros Hs Hu Hd. cbn [step]. unfold arrive. rewrite Hs.
  destruct (Z.ltb_spec (now s) (until s)); [lia|].
  unfold recovering_branch, set_recovering, set_state, with_rc. fld.
  destruct (Z.ltb_spec (now s + recoveryD c) (now s)); [lia|].
  unfold allow_request. rewrite (ramp_cmp_fresh _ _ Hd), decide_ff. lazy beta iota.
  eexists; split; [reflexivity|]. fld. unfold new_ramp. fld. repeat split; lia.
Qed.

Lemma back_to_standby c s h : state s = Recovering -> until s < now s ->
  step c s (Arrive h) = (set_state s Standby (now s), Pass).
Proof.
  intros Hs Hu. cbn [step]. unfold arrive, recovering_branch. rewrite Hs.
  destruct (Z.ltb_spec (until s) (now s)); [reflexivity|lia].
Qed.


(* invariant of the recovering state *)
Definition RInv (c : cfg) (s : st) : Prop :=
  state s = Recovering ->
  rdur (rc s) = recoveryD c /\ until s = rstart (rc s) + rdur (rc s) /\
  0 <= allowed (rc s) /\ 0 <= denied (rc s) /\ rstart (rc s) <= now s /\
  2 * allowed (rc s) * rdur (rc s) <= (now s - rstart (rc s)) * (allowed (rc s) + denied (rc s)).

Lemma RInv_step c s o : 0 < recoveryD c -> tick_ok o -> RInv c s -> RInv c (fst (step c s o)).
Proof.
  intros Hd Ht Hinv. destruct o as [h|code h lats|d| |code|h lats]; cbn [step fst].
  - destruct (state s) eqn:Es.
    + unfold arrive. rewrite Es. cbn [fst]. intros H; congruence.
    + destruct (Z.lt_ge_cases (now s) (until s)) as [Hlt|Hge].
      * rewrite (arrive_tripped_fallback c s h Es Hlt). cbn [fst]. intros H; congruence.
      * destruct (first_request_starts_recovery c s h Es Hge) as (s' & E & A1 & A2 & A3 & A4 & _); [lia|].
        cbn [step] in E. rewrite E. cbn [fst]. intros _. rewrite A3. cbn [rstart rdur allowed denied]. repeat split; lia.
    + specialize (Hinv Es). destruct Hinv as (H1 & H2 & H3 & H4 & H5 & H6).
      destruct (Z.lt_ge_cases (until s) (now s)) as [Hlt|Hge].
      * pose proof (back_to_standby c s h Es Hlt) as E. cbn [step] in E. rewrite E. cbn [fst]. intros H; cbn in H; congruence.
      * destruct (ramp_arrival c s h Es) as (r' & b & E & B1 & B2 & B3 & B4 & _); [lia|lia|].
        rewrite E. cbn [fst]. unfold RInv, with_rc. fld. intros _. rewrite B1, B2.
        destruct b; [destruct (B3 eq_refl) as (C1 & C2 & C3)|destruct (B4 eq_refl) as (C1 & C2 & C3)];
          rewrite C2, C3; repeat split; try lia; nia.
  - unfold RInv in *. complete_cases c s code h lats; cbn in *; rewrite ?Es; try congruence; auto.
  - cbn in Ht. unfold with_now, RInv in *. cbn [state rc until now]. intros Hs. specialize (Hinv Hs).
    destruct Hinv as (H1 & H2 & H3 & H4 & H5 & H6). repeat split; try lia; nia.
  - assumption.
  - exact Hinv.
  - unfold RInv in *. check_cases c s h lats; cbn in *; rewrite ?Es; try congruence; auto.
Qed.

Lemma RInv_init c t0 : RInv c (init t0).
Proof. intros H. cbn in H. discriminate. Qed.

Lemma RInv_exec c ops : forall s, 0 < recoveryD c -> ticks_nonneg ops -> RInv c s -> RInv c (exec (step c) s ops).
Proof.
  induction ops as [|o r IH]; intros s Hd Ht Hi; cbn; [assumption|]. inv Ht.
  apply IH; auto. apply RInv_step; assumption.
Qed.

(* integer cross-multiplication <-> the statement over Q *)
Lemma Qfrac_le_cross (a n e d : Z) : 0 < n -> 0 < d ->
  (2 * a * d <= e * n <-> (inject_Z a / inject_Z n <= (1 # 2) * inject_Z e / inject_Z d)%Q).
Proof.
  intros Hn Hd. destruct n as [|n|n]; try lia. destruct d as [|d|d]; try lia.
  unfold Qle, Qdiv, Qmult, Qinv, inject_Z. cbn [Qnum Qden]. rewrite ?Pos2Z.inj_mul. lia.
Qed.

Lemma fraction_bound c t0 ops s t : 0 < recoveryD c -> ticks_nonneg ops -> s = exec (step c) (init t0) ops ->
  state s = Recovering -> now s <= t ->
  rstart (rc s) + recoveryD c = until s /\ rstart (rc s) <= now s /\
  0 <= allowed (rc s) /\ 0 <= denied (rc s) /\
  (0 < allowed (rc s) + denied (rc s) ->
   (inject_Z (allowed (rc s)) / inject_Z (allowed (rc s) + denied (rc s))
    <= (1 # 2) * inject_Z (t - rstart (rc s)) / inject_Z (recoveryD c))%Q).
Proof.
  intros Hd Ht -> Hs Hle.
  destruct (RInv_exec c ops (init t0) Hd Ht (RInv_init c t0) Hs) as (H1 & H2 & H3 & H4 & H5 & H6).
  repeat split; try lia. intros Hn. apply Qfrac_le_cross; try lia. rewrite H1 in H6. nia.
Qed.

(* ------------------------------------------------------------------ C18: checks *)
Lemma check_locked_trip_iff c s h lats : state s <> Tripped -> lastCheck s <= now s ->
  (state (check_locked c s h lats) = Tripped <->
   decide (eval (cond c) (log s) (now s) lats) (has_tie (cond c) (log s) (now s) lats) h = true).
Proof.
  intros Hne Hrun. rewrite (check_locked_run c s h lats Hrun). cbv zeta.
  destruct (state s) eqn:Es; try congruence.
  all: destruct (decide _ _ h); cbn; rewrite ?Es; split; congruence.
Qed.

Lemma trip_iff c s code h lats : state s <> Tripped -> lastCheck s < now s ->
  (state (complete c s code h lats) = Tripped <->
   decide (eval (cond c) ((now s, code) :: log s) (now s) lats)
          (has_tie (cond c) ((now s, code) :: log s) (now s) lats) h = true).
Proof.
  intros Hne Hdue. rewrite (complete_due c s code h lats Hdue).
  apply (check_locked_trip_iff c (record s code) h lats); cbn; [exact Hne|lia].
Qed.

Lemma decide_exact ex tie h : h = None \/ tie = false -> decide ex tie h = ex.
Proof. intros [->| ->]; [reflexivity|]. destruct h; reflexivity. Qed.

(* arrivals, clock advances (and Nop) do not touch the check schedule or the metrics *)
Definition plain (o : op) : Prop := match o with Arrive _ | Tick _ | Nop => True | _ => False end.

Lemma step_keeps_schedule c s o : plain o ->
  lastCheck (fst (step c s o)) = lastCheck s /\ log (fst (step c s o)) = log s.
Proof.
  intros Hn. destruct o as [h|code h lats|d| |code|h lats]; cbn [step fst]; try (exfalso; exact Hn); try (cbn; auto; fail).
  unf. destruct (state s); cbn; auto; repeat (destr_if; cbn); auto.
  all: destruct (ramp_cmp _ _) as [ex tie]; destruct (decide ex tie h); cbn; auto.
Qed.

(* the records in the metrics after a history were all recorded by it, at or after its start *)
Definition completes (ops : list op) : Z :=
  fold_right (fun o n => match o with Complete _ _ _ | Record _ => n + 1 | _ => n end) 0 ops.

Lemma log_step c s o t0 : tick_ok o -> t0 <= now s -> Forall (fun e => t0 <= fst e) (log s) ->
  Forall (fun e => t0 <= fst e) (log (fst (step c s o))) /\
  Z.of_nat (length (log (fst (step c s o)))) <= Z.of_nat (length (log s)) + completes [o].
Proof.
  intros Ht Hn Hf. destruct o as [h|code h lats|d| |code|h lats].
  - destruct (step_keeps_schedule c s (Arrive h)) as [_ E]; [exact I|]. rewrite E. cbn [completes fold_right]. split; [assumption|lia].
  - cbn [step fst completes fold_right].
    assert (Hc : Forall (fun e => t0 <= fst e) ((now s, code) :: log s)) by (constructor; assumption).
    complete_cases c s code h lats; cbn [log record with_log with_lastCheck set_state length]; try (split; [assumption|lia]).
    all: split; [constructor|lia].
  - cbn. split; [assumption|lia].
  - cbn. split; [assumption|lia].
  - cbn [step fst completes fold_right record with_log log length]. split; [constructor; assumption|lia].
  - cbn [step fst completes fold_right].
    check_cases c s h lats; cbn [log with_log with_lastCheck set_state length]; try (split; [assumption|lia]).
    all: split; [constructor|lia].
Qed.

Lemma completes_cons o r : completes (o :: r) = completes [o] + completes r.
Proof. unfold completes. cbn [fold_right]. destruct o; lia. Qed.

Lemma log_exec c ops : forall s t0, ticks_nonneg ops -> t0 <= now s -> Forall (fun e => t0 <= fst e) (log s) ->
  Forall (fun e => t0 <= fst e) (log (exec (step c) s ops)) /\
  Z.of_nat (length (log (exec (step c) s ops))) <= Z.of_nat (length (log s)) + completes ops.
Proof.
  induction ops as [|o r IH]; intros s t0 Ht Hn Hf; cbn [exec]; [cbn; split; [assumption|lia]|]. inv Ht.
  destruct (log_step c s o t0 H1 Hn Hf) as [A B].
  destruct (IH (fst (step c s o)) t0 H2) as [A' B']; [pose proof (now_step c s o H1); lia|assumption|].
  split; [assumption|]. rewrite (completes_cons o r). lia.
Qed.

(* ------------------------------------------------------------------ C18: eval is the standard reading over Q *)
Lemma count_nonneg p now l : 0 <= count p now l.
Proof. induction l as [|e r IH]; cbn [count]; [lia|]. destruct (live now e && p (snd e)); lia. Qed.

Lemma mvalue_den_pos m l now lats : 0 < snd (mvalue m l now lats).
Proof.
  destruct m; cbn [mvalue].
  - destruct (Z.eqb_spec (count any_code now l) 0); cbn; [lia|]. pose proof (count_nonneg any_code now l). lia.
  - destruct (Z.eqb_spec (count (in_range c d) now l) 0); cbn; [lia|]. pose proof (count_nonneg (in_range c d) now l). lia.
  - cbn. lia.
Qed.

(* the metric and the literal as rationals *)
Definition mvalueQ (m : metric) (l : mlog) (now : Z) (lats : list Z) : Q :=
  Qmake (fst (mvalue m l now lats)) (Z.to_pos (snd (mvalue m l now lats))).
Definition literalQ (tn td : Z) : Q := Qmake tn (Z.to_pos td).

Lemma eval_cmp_standard o m tn td l now lats : 0 < td ->
  let x := mvalueQ m l now lats in let y := literalQ tn td in
  (eval (ECmp o m tn td) l now lats = true <->
   match o with
   | Lt => x < y | Le => x <= y | Gt => y < x | Ge => y <= x | Eq => x == y | Ne => ~ x == y
   end)%Q.
Proof.
  intros Htd x y. subst x y. unfold mvalueQ, literalQ. cbn [eval]. unfold sides.
  pose proof (mvalue_den_pos m l now lats) as Hd. destruct (mvalue m l now lats) as [n d]. cbn [fst snd] in *.
  unfold Qlt, Qle, Qeq. cbn [Qnum Qden]. rewrite !Z2Pos.id by lia.
  destruct o; cbn [cmp_exact].
  - apply Z.ltb_lt.
  - apply Z.leb_le.
  - apply Z.ltb_lt.
  - apply Z.leb_le.
  - apply Z.eqb_eq.
  - rewrite negb_true_iff. rewrite Z.eqb_neq. reflexivity.
Qed.

(* ------------------------------------------------------------------ C18: no evaluation before the period is over *)
Lemma arrive_keeps_tripped_count c s h : nTripped (fst (arrive c s h)) = nTripped s.
Proof.
  destruct (micro_effects c s (Arrive h)) as [A _]. cbn [step] in A. rewrite A. clear A.
  pose proof (micro_chain c s (Arrive h)) as Hc. cbn [micro] in *.
  unfold arrive_mid, arrive in *. destruct (state s) eqn:Es.
  - cbn. rewrite Es. cbn. lia.
  - destruct (now s <? until s); [cbn; rewrite Es; cbn; lia|].
    cbn [app map enters]. unfold set_recovering, with_rc, set_state. fld.
    unfold recovering_branch. fld. destruct (_ <? _); [cbn; lia|].
    destruct (allow_request _ _ h) as [r ok]. cbn. lia.
  - unfold recovering_branch. destruct (_ <? _); [cbn; lia|].
    destruct (allow_request _ _ h) as [r ok]. cbn. rewrite Es. cbn. lia.
Qed.

(* gated: the history contains no free-standing locked section (every check goes through its gate) *)
Definition gated_op (o : op) : Prop := match o with CheckLocked _ _ => False | _ => True end.

Lemma quiet_step c s o : tick_ok o ->
  now (fst (step c s o)) < lastCheck s \/ (gated_op o /\ now (fst (step c s o)) <= lastCheck s) ->
  lastCheck (fst (step c s o)) = lastCheck s /\ nTripped (fst (step c s o)) = nTripped s.
Proof.
  intros Ht Hn. destruct o as [h|code h lats|d| |code|h lats].
  - destruct (step_keeps_schedule c s (Arrive h)) as [A _]; [exact I|]. split; [assumption|].
    cbn [step]. apply arrive_keeps_tripped_count.
  - cbn [step fst] in *. assert (Hle : now s <= lastCheck s).
    { pose proof (now_step c s (Complete code h lats) I) as H. cbn [step fst] in H. lia. }
    rewrite (complete_not_due c s code h lats Hle). cbn. auto.
  - cbn. auto.
  - cbn. auto.
  - cbn. auto.
  - cbn [step fst] in *. assert (Hlt : now s < lastCheck s).
    { pose proof (now_step c s (CheckLocked h lats) I) as H. cbn [step fst] in H.
      destruct Hn as [Hn|[[] _]]. lia. }
    rewrite (check_locked_skip c s h lats Hlt). auto.
Qed.

Lemma quiet_period c ops : forall s, ticks_nonneg ops ->
  now (exec (step c) s ops) < lastCheck s \/ (Forall gated_op ops /\ now (exec (step c) s ops) <= lastCheck s) ->
  lastCheck (exec (step c) s ops) = lastCheck s /\ nTripped (exec (step c) s ops) = nTripped s.
Proof.
  induction ops as [|o r IH]; intros s Ht Hn; cbn [exec] in *; [auto|]. inv Ht.
  pose proof (now_exec c r (fst (step c s o)) H2) as Hmono.
  destruct (quiet_step c s o H1) as [A B].
  { destruct Hn as [Hn|[Hg Hn]]; [left; lia|right]. inv Hg. split; [assumption|lia]. }
  destruct (IH (fst (step c s o)) H2) as [A' B'].
  { rewrite A. destruct Hn as [Hn|[Hg Hn]]; [left; assumption|right]. inv Hg. split; assumption. }
  split; congruence.
Qed.

(* ------------------------------------------------------------------ C12 over Q, for reachable states *)
Lemma refuse_only_at_ramp c t0 ops s h s' : 0 < recoveryD c -> ticks_nonneg ops -> s = exec (step c) (init t0) ops ->
  state s = Recovering -> now s <= until s -> step c s (Arrive h) = (s', Fallback) ->
  ((1 # 2) * inject_Z (now s - rstart (rc s)) / inject_Z (recoveryD c)
   <= inject_Z (allowed (rc s) + 1) / inject_Z (allowed (rc s) + denied (rc s) + 1))%Q.
Proof.
  intros Hd Ht -> Hs Hu E.
  destruct (RInv_exec c ops (init t0) Hd Ht (RInv_init c t0) Hs) as (H1 & H2 & H3 & H4 & H5 & H6).
  destruct (ramp_arrival c _ h Hs Hu) as (r' & b & E' & _ & _ & _ & B4 & _); [lia|].
  cbn [step] in E. rewrite E' in E. destruct b; [inv E|]. destruct (B4 eq_refl) as (C1 & _).
  apply Qfrac_ge_cross; lia.
Qed.

Lemma admit_iff_below_ramp c t0 ops s : 0 < recoveryD c -> ticks_nonneg ops -> s = exec (step c) (init t0) ops ->
  state s = Recovering -> now s <= until s ->
  (snd (step c s (Arrive None)) = Pass <->
   (inject_Z (allowed (rc s) + 1) / inject_Z (allowed (rc s) + denied (rc s) + 1)
    < (1 # 2) * inject_Z (now s - rstart (rc s)) / inject_Z (recoveryD c))%Q).
Proof.
  intros Hd Ht -> Hs Hu.
  destruct (RInv_exec c ops (init t0) Hd Ht (RInv_init c t0) Hs) as (H1 & H2 & H3 & H4 & H5 & H6).
  destruct (ramp_arrival c _ None Hs Hu) as (r' & b & E' & _ & _ & _ & _ & B5); [lia|].
  cbn [step]. rewrite E'. cbn [snd]. specialize (B5 eq_refl). rewrite H1 in B5.
  rewrite <- Qfrac_lt_cross by lia. rewrite <- B5. destruct b; split; congruence.
Qed.

Lemma ramp_counts_verdicts c t0 ops s h : 0 < recoveryD c -> ticks_nonneg ops -> s = exec (step c) (init t0) ops ->
  state s = Recovering -> now s <= until s ->
  let s' := fst (step c s (Arrive h)) in
  state s' = Recovering /\ until s' = until s /\ rstart (rc s') = rstart (rc s) /\
  match snd (step c s (Arrive h)) with
  | Pass => allowed (rc s') = allowed (rc s) + 1 /\ denied (rc s') = denied (rc s)
  | _ => allowed (rc s') = allowed (rc s) /\ denied (rc s') = denied (rc s) + 1
  end.
Proof.
  intros Hd Ht -> Hs Hu.
  destruct (RInv_exec c ops (init t0) Hd Ht (RInv_init c t0) Hs) as (H1 & H2 & H3 & H4 & H5 & H6).
  destruct (ramp_arrival c _ h Hs Hu) as (r' & b & E' & B1 & B2 & B3 & B4 & _); [lia|].
  cbn [step]. rewrite E'. cbv zeta. cbn [fst snd]. unfold with_rc. fld. repeat split; auto.
  destruct b; [destruct (B3 eq_refl) as (_ & A & B)|destruct (B4 eq_refl) as (_ & A & B)]; auto.
Qed.

(* ---------- a burst of simultaneous arrivals ---------- *)
Definition passes (vs : list verdict) : Z :=
  Z.of_nat (length (filter (fun v => match v with Pass => true | _ => false end) vs)).

Lemma burst_sequential c : forall k s,
  fst (burst c s k) = exec (step c) s (repeat (Arrive None) k) /\
  snd (burst c s k) = passes (run_from (step c) s (repeat (Arrive None) k)).
Proof. induction k as [|k IH]; intros s; [split; reflexivity|].
  cbn [burst repeat exec run_from step]. destruct (arrive c s None) as [s1 v] eqn:Ea. cbn [fst].
  destruct (IH s1) as [I1 I2]. destruct (burst c s1 k) as [s2 n]. cbn [fst snd] in *. subst.
  split; [reflexivity|]. unfold passes. cbn [filter]. destruct v; cbn [length]; lia. Qed.

Lemma burst_shielded c s k : state s = Tripped -> now s < until s -> burst c s k = (s, 0).
Proof. intros Hs Hu. induction k as [|k IH]; [reflexivity|]. cbn [burst]. unfold arrive. rewrite Hs.
  replace (now s <? until s) with true by (symmetry; apply Z.ltb_lt; exact Hu). rewrite IH. reflexivity. Qed.

Lemma burst_standby c s k : state s = Standby -> burst c s k = (s, Z.of_nat k).
Proof. intros Hs. induction k as [|k IH]; [reflexivity|]. cbn [burst]. unfold arrive. rewrite Hs. rewrite IH.
  f_equal. lia. Qed.

(* ------------------------------------------------------------------ C05: the shield when the wall clock is set back *)
(* [tripped_step] never uses that clock advances are non-negative: *)
Lemma tripped_step_any c s o : state s = Tripped -> now (fst (step c s o)) < until s ->
  state (fst (step c s o)) = Tripped /\ until (fst (step c s o)) = until s.
Proof.
  intros Hs. destruct o as [h|code h lats|d| |code|h lats]; cbn [step fst].
  - intros Hn. assert (Hlt : now s < until s).
    { pose proof (now_step c s (Arrive h) I) as H. cbn [step] in H. lia. }
    rewrite (arrive_tripped_fallback c s h Hs Hlt). cbn. auto.
  - intros _. complete_cases c s code h lats; cbn in *; try congruence; auto.
  - intros _. unf. cbn. auto.
  - auto.
  - intros _. cbn. auto.
  - intros _. check_cases c s h lats; cbn in *; try congruence; auto.
Qed.

(* every clock reading along the way is below u (the clock may go back and forth) *)
Fixpoint all_below (c : cfg) (s : st) (ops : list op) (u : Z) : Prop :=
  match ops with
  | [] => True
  | o :: r => now (fst (step c s o)) < u /\ all_below c (fst (step c s o)) r u
  end.

Lemma shield_exec_any c ops : forall s, state s = Tripped -> all_below c s ops (until s) ->
  state (exec (step c) s ops) = Tripped /\ until (exec (step c) s ops) = until s.
Proof.
  induction ops as [|o r IH]; intros s Hs Hb; cbn in *; [auto|]. destruct Hb as [H1 H2].
  destruct (tripped_step_any c s o Hs H1) as [A B].
  destruct (IH (fst (step c s o)) A) as [A' B']; [rewrite B; exact H2|].
  split; [assumption|congruence].
Qed.

(* from the step that trips the breaker: whatever the clock does afterwards (forwards, backwards), as long as it never
   reads trip instant + fallback duration or more, the breaker stays tripped, the deadline stays, arrivals fall back *)
Lemma shield_any_clock c s o ops :
  state s <> Tripped -> state (fst (step c s o)) = Tripped ->
  let s1 := fst (step c s o) in
  all_below c s1 ops (now s + fallbackD c) -> now s1 < now s + fallbackD c ->
  let s2 := exec (step c) s1 ops in
  state s2 = Tripped /\ until s2 = now s + fallbackD c /\ (now s2 < now s + fallbackD c -> forall h', step c s2 (Arrive h') = (s2, Fallback)).
Proof.
  intros Hne Ht s1 Hb Hn1 s2.
  assert (U : until s1 = now s + fallbackD c).
  { pose proof (shield c s o [] Hne Ht) as S. cbn in S. destruct S as (_ & S & _); [constructor|exact Hn1|exact S]. }
  destruct (shield_exec_any c ops s1 Ht) as [A B]; [rewrite U; exact Hb|].
  fold s2 in A, B. split; [exact A|]. split; [congruence|].
  intros Hlt h'. cbn [step]. rewrite (arrive_tripped_fallback c s2 h' A); [reflexivity|]. rewrite B, U. exact Hlt.
Qed.
