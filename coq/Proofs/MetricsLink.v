(* Link between two models: the breaker's metrics (Model/Breaker.v: a log of (time, code) records read through a
   10 x 1 s window) and the rolling counter (Model/Counter.v, Proofs/CounterProofs.v: C17). A counter of
   memmetrics.RTMetrics that received one increment per record selected by p reads exactly Breaker.count p. *)
From Oxy Require Import Base.Prelude.
From Oxy Require Model.Breaker Model.Counter Proofs.CounterProofs.
Open Scope Z_scope.

Lemma sl_second t : CounterProofs.sl Breaker.second t = Breaker.slot t.
Proof. unfold CounterProofs.sl, Breaker.slot, Counter.Z0, Breaker.second.
  replace (t + 62135596800 * 1000000000) with (t + 62135596800 * 1000000000) by reflexivity.
  rewrite Z.div_add by lia.
  replace (- (62135596800 * 1000000000)) with ((-62135596800) * 1000000000) by lia.
  rewrite Z.div_mul by lia. lia. Qed.

(* for records made at or before the instant of the read, "in the counter's window" = "live" *)
Lemma window_is_live now t v c : t <= now ->
  CounterProofs.inwin Breaker.second Breaker.buckets (CounterProofs.sl Breaker.second now) (t, v) = Breaker.live now (t, c).
Proof. intros H. unfold CounterProofs.inwin, Breaker.live. cbn [fst]. rewrite !sl_second.
  assert (Breaker.slot t <= Breaker.slot now) by (unfold Breaker.slot; apply Z.div_le_mono; unfold Breaker.second; lia).
  destruct (Z.leb_spec (Breaker.slot t) (Breaker.slot now)); [|lia]. apply andb_true_r. Qed.

(* the increments a counter received for the records of l that satisfy p: one unit each, at the record's time *)
Definition incs_of (p : Z -> bool) (l : Breaker.mlog) : CounterProofs.log :=
  map (fun e => (fst e, 1)) (filter (fun e => p (snd e)) l).

Theorem count_is_counter_window p now l :
  (forall e, In e l -> fst e <= now) ->
  Breaker.count p now l =
  CounterProofs.sumif (CounterProofs.inwin Breaker.second Breaker.buckets (CounterProofs.sl Breaker.second now)) (incs_of p l).
Proof. induction l as [|[t c] l IH]; intros H; [reflexivity|].
  cbn [Breaker.count incs_of filter snd fst]. unfold incs_of in IH. rewrite IH by (intros; apply H; right; assumption).
  unfold incs_of. cbn [filter snd]. destruct (p c) eqn:Ep; cbn [map CounterProofs.sumif fst snd].
  - rewrite (window_is_live now t 1 c) by (apply (H (t, c)); left; reflexivity).
    rewrite andb_true_r. reflexivity.
  - rewrite andb_false_r. reflexivity. Qed.
