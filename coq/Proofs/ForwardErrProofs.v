(* Lemmas about the forwarder's response/error path (Model/ForwardErr.v). *)
From Oxy Require Import Base.Prelude Model.Source Proofs.SourceProofs Model.Forward Proofs.ForwardProofs Model.ForwardErr.
Open Scope Z_scope.

Lemma status_is_class e : std_handler_status e = class_status (classify e).
Proof. unfold std_handler_status, classify. destruct e as [[] [] [] []]; reflexivity. Qed.

Lemma classify_spec e :
  (classify e = Timeout <-> is_net_error e = true /\ net_timeout e = true) /\
  (classify e = NetOther <-> is_net_error e = true /\ net_timeout e = false) /\
  (classify e = EOF <-> is_net_error e = false /\ wraps_eof e = true) /\
  (classify e = Canceled <-> is_net_error e = false /\ wraps_eof e = false /\ wraps_canceled e = true) /\
  (classify e = Other <-> is_net_error e = false /\ wraps_eof e = false /\ wraps_canceled e = false).
Proof. unfold classify. destruct e as [[] [] [] []]; cbn; repeat split; intros; try discriminate; try tauto;
  repeat match goal with H : _ /\ _ |- _ => destruct H end; try discriminate. Qed.

Lemma paired next : serve_state_listener next = ([Connected; Disconnected], next).
Proof. destruct next; reflexivity. Qed.

(* the same body without defer loses the second call when the wrapped handler panics *)
Lemma straight_line_unpaired : exec_body [Call Connected; Next; Call Disconnected] Panic [] = ([Connected], Panic).
Proof. reflexivity. Qed.

(* defer semantics in general: whatever comes after a panicking Next is skipped, deferred calls still run *)
Lemma exec_panic_skips pre post deferred :
  (forall s, In s pre -> s <> Next) ->
  exists t d, exec_body (pre ++ Next :: post) Panic deferred = (t ++ d, Panic) /\
              exec_body (pre ++ [Next]) Panic deferred = (t ++ d, Panic).
Proof. revert deferred; induction pre as [|s pre IH]; intros deferred Hn.
  - exists [], deferred. split; reflexivity.
  - destruct s as [e|e|]; [| |exfalso; apply (Hn Next); [left; reflexivity|reflexivity]].
    + destruct (IH deferred) as (t & d & A & B); [intros; apply Hn; right; assumption|].
      exists (e :: t), d. cbn. rewrite A, B. split; reflexivity.
    + destruct (IH (e :: deferred)) as (t & d & A & B); [intros; apply Hn; right; assumption|].
      exists t, d. cbn. rewrite A, B. split; reflexivity. Qed.

(* the relay stage *)
Lemma relay_status_body resp : rs_status (rp_relay resp) = rs_status resp /\ rs_body (rp_relay resp) = rs_body resp.
Proof. split; reflexivity. Qed.

Lemma relay_end_to_end resp k :
  existsb (fun k' => beq k' k) hop_headers = false ->
  existsb (fun o => negb (is_nil (trim_string o)) && beq (rp_name o) k) (connection_options (rs_hdr resp)) = false ->
  hvals (rs_hdr (rp_relay resp)) k = hvals (rs_hdr resp) k.
Proof. intros H1 H2. unfold rp_relay. cbn [rs_hdr]. rewrite remove_hop_spec, H1, H2. reflexivity. Qed.

Lemma relay_hop resp k : In k hop_headers -> hvals (rs_hdr (rp_relay resp)) k = None.
Proof. intros Hin. unfold rp_relay. cbn [rs_hdr]. rewrite remove_hop_spec.
  replace (existsb (fun k' => beq k' k) hop_headers) with true; [reflexivity|].
  symmetry. apply existsb_exists. exists k. split; [exact Hin|apply beq_refl]. Qed.

Lemma relay_named resp opt :
  In opt (connection_options (rs_hdr resp)) -> trim_string opt <> [] -> hvals (rs_hdr (rp_relay resp)) (rp_name opt) = None.
Proof. intros Hin Hne. unfold rp_relay. cbn [rs_hdr]. rewrite remove_hop_spec.
  destruct (existsb (fun k' => beq k' (rp_name opt)) hop_headers); [reflexivity|].
  replace (existsb (fun o => negb (is_nil (trim_string o)) && beq (rp_name o) (rp_name opt)) (connection_options (rs_hdr resp)))
    with true; [reflexivity|].
  symmetry. apply existsb_exists. exists opt. split; [exact Hin|].
  rewrite beq_refl, andb_true_r. destruct (trim_string opt); [congruence|reflexivity]. Qed.
