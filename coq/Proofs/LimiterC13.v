(* C13 at set and limiter level, for every reachable state of every history (evictions included). *)
From Oxy Require Import Base.Prelude Model.Bucket Model.Limiter Proofs.BucketProofs Proofs.SetProofs
  Proofs.LimiterProofs Proofs.LimiterLocal.
Open Scope Z_scope.

(* ---------- a request always computes its decision from its own entry and stores the resulting entry ---------- *)
Lemma consume_rates_own c s src n hint : NoDup (keys (tmap s)) ->
  let r := consume_rates c s src n hint in
  snd (fst r) = local_out c (now s) (lookup (tmap s) src) n /\
  lookup (tmap (fst (fst r))) src = Some (local_entry c (now s) src (lookup (tmap s) src) n) /\
  now (fst (fst r)) = now s.
Proof. intros Hnd. cbn zeta. unfold consume_rates, ttl_get, local_out, local_entry, local_set, found_of.
  destruct (lookup (tmap s) src) as [e|] eqn:El.
  - destruct (Z.leb_spec (e_exp e) (now_sec (now s))).
    + destruct (consume_set (now s) n (new_set (now s) (rates c))) as [o bs'] eqn:Ec.
      pose proof (evict_frame (capacity c) (now s) (remove (tmap s) src) src bs' (ttl_of (new_set (now s) (rates c))) hint
                   (NoDup_remove _ _ Hnd)) as (_ & _ & F). cbn zeta in F.
      destruct (ttl_set (capacity c) (now s) (remove (tmap s) src) src bs' (ttl_of (new_set (now s) (rates c))) hint) as [m2 ev].
      cbn [fst snd now tmap] in *. auto.
    + destruct (consume_set (now s) n (update_set (rates c) (e_val e))) as [o bs'] eqn:Ec.
      pose proof (evict_frame (capacity c) (now s) (tmap s) src bs' (ttl_of (update_set (rates c) (e_val e))) hint Hnd) as (_ & _ & F).
      cbn zeta in F.
      destruct (ttl_set (capacity c) (now s) (tmap s) src bs' (ttl_of (update_set (rates c) (e_val e))) hint) as [m2 ev].
      cbn [fst snd now tmap] in *. auto.
  - destruct (consume_set (now s) n (new_set (now s) (rates c))) as [o bs'] eqn:Ec.
    pose proof (evict_frame (capacity c) (now s) (tmap s) src bs' (ttl_of (new_set (now s) (rates c))) hint Hnd) as (_ & _ & F).
    cbn zeta in F.
    destruct (ttl_set (capacity c) (now s) (tmap s) src bs' (ttl_of (new_set (now s) (rates c))) hint) as [m2 ev].
    cbn [fst snd now tmap] in *. auto. Qed.

(* ---------- invariant of every reachable limiter state ---------- *)
Definition Linv (c : cfg) (s : st) : Prop :=
  NoDup (keys (tmap s)) /\ forall e, In e (tmap s) -> sinv (rates c) (e_val e) (now s).

Lemma in_remove m k e : In e (remove m k) -> In e m.
Proof. induction m as [|x m IH]; cbn; [tauto|]. destruct (e_key x =? k); cbn; intuition. Qed.

Lemma in_replace m e x : In x (replace m e) -> x = e \/ In x m.
Proof. induction m as [|y m IH]; cbn; [tauto|]. destruct (e_key y =? e_key e); cbn; intuition. Qed.

Lemma keys_replace_incl m e k : In k (keys (replace m e)) -> In k (keys m).
Proof. induction m as [|y m IH]; cbn; [tauto|]. destruct (Z.eqb_spec (e_key y) (e_key e)); cbn; intuition congruence. Qed.

Lemma NoDup_replace m e : NoDup (keys m) -> NoDup (keys (replace m e)).
Proof. induction m as [|y m IH]; cbn; intros H; [constructor|]. inv H. destruct (Z.eqb_spec (e_key y) (e_key e)) as [E|E]; cbn.
  - constructor; [congruence|assumption].
  - constructor; [|auto]. intros Hin. apply keys_replace_incl in Hin. tauto. Qed.

Lemma local_set_sinv c tnow t oe : Forall valid_rate (rates c) -> NoDup (map r_period (rates c)) ->
  (forall e, oe = Some e -> sinv (rates c) (e_val e) t) -> t <= tnow ->
  sinv (rates c) (local_set c tnow oe) tnow.
Proof. intros Hv Hp He Ht. unfold local_set, found_of. destruct oe as [e|]; [|apply new_set_spec; assumption].
  destruct (e_exp e <=? now_sec tnow); [apply new_set_spec; assumption|].
  specialize (He e eq_refl). rewrite (update_set_id _ _ _ Hp He). eapply sinv_mono; eassumption. Qed.

Lemma ttl_set_members cap tnow m k v ttl hint x :
  In x (fst (ttl_set cap tnow m k v ttl hint)) -> e_val x = v \/ In x m.
Proof. unfold ttl_set. destruct (lookup m k); cbn [fst].
  - intros H. apply in_replace in H. destruct H as [->|H]; auto.
  - destruct (cap <=? Z.of_nat (length m)); [destruct (victim m hint)|]; cbn [fst]; intros H; apply in_app_or in H;
    destruct H as [H|[<-|[]]]; auto. right. eapply in_remove; eassumption. Qed.

Lemma ttl_set_nodup cap tnow m k v ttl hint : NoDup (keys m) -> NoDup (keys (fst (ttl_set cap tnow m k v ttl hint))).
Proof. intros Hnd. unfold ttl_set. destruct (lookup m k) eqn:El; cbn [fst]; [apply NoDup_replace; assumption|].
  assert (Hk : ~ In k (keys m)) by (apply lookup_none; assumption).
  destruct (cap <=? Z.of_nat (length m)); [destruct (victim m hint)|]; cbn [fst]; unfold keys; rewrite map_app; cbn;
    apply NoDup_app_snoc; auto.
  - apply NoDup_remove; assumption.
  - intros Hin. apply Hk. eapply keys_remove_incl; eassumption. Qed.

Lemma Linv_req c s src n hint : Forall valid_rate (rates c) -> NoDup (map r_period (rates c)) -> 0 <= n ->
  Linv c s -> Linv c (fst (fst (consume_rates c s src n hint))).
Proof. intros Hv Hp Hn (Hnd & Hs). unfold consume_rates, ttl_get.
  assert (G : forall m1 bs, NoDup (keys m1) -> (forall e, In e m1 -> In e (tmap s)) -> sinv (rates c) bs (now s) ->
     Linv c (fst (fst (let '(o, bs') := consume_set (now s) n bs in
                       let '(m2, ev) := ttl_set (capacity c) (now s) m1 src bs' (ttl_of bs) hint in
                       ({| now := now s; tmap := m2; last_delay := match o with SReject d => d | _ => 0 end |}, o, ev))))).
  { intros m1 bs Hnd1 Hsub Hbs.
    destruct (consume_set_spec (rates c) (now s) n bs (now s) Hbs (Z.le_refl _) Hn) as (_ & _ & Hinv').
    destruct (consume_set (now s) n bs) as [o bs'] eqn:Ec. cbn [snd] in Hinv'.
    pose proof (ttl_set_nodup (capacity c) (now s) m1 src bs' (ttl_of bs) hint Hnd1) as N.
    pose proof (fun x => ttl_set_members (capacity c) (now s) m1 src bs' (ttl_of bs) hint x) as M.
    destruct (ttl_set (capacity c) (now s) m1 src bs' (ttl_of bs) hint) as [m2 ev]. cbn [fst snd] in *.
    split; cbn [now tmap]; [assumption|]. intros e He. destruct (M e He) as [->|Hin]; [assumption|]. apply Hs, Hsub, Hin. }
  destruct (lookup (tmap s) src) as [e|] eqn:El.
  - destruct (lookup_some_key _ _ _ El) as (_ & Hin).
    destruct (e_exp e <=? now_sec (now s)).
    + apply G; [apply NoDup_remove; assumption|intros x Hx; eapply in_remove; eassumption|apply new_set_spec; assumption].
    + apply G; [assumption|auto|]. rewrite (update_set_id _ _ _ Hp (Hs e Hin)). apply Hs; assumption.
  - apply G; [assumption|auto|apply new_set_spec; assumption]. Qed.

Lemma Linv_step c s o : Forall valid_rate (rates c) -> NoDup (map r_period (rates c)) ->
  (forall src n h, o = Req src n h -> 0 <= n) -> Linv c s -> Linv c (fst (step c s o)).
Proof. intros Hv Hp Hn Hi. destruct o as [src n h|d|].
  - rewrite step_req_state. apply Linv_req; auto. eapply Hn; reflexivity.
  - destruct Hi as (A & B). split; cbn [step fst now tmap]; [assumption|]. intros e He. eapply sinv_mono; [apply B; assumption|lia].
  - destruct Hi as (A & B). split; cbn [step fst now tmap]; [assumption|]. intros e He. eapply sinv_mono; [apply B; assumption|lia]. Qed.

Lemma Linv_exec c ops : Forall valid_rate (rates c) -> NoDup (map r_period (rates c)) ->
  forall s, Linv c s -> amounts_ok ops -> Linv c (exec (step c) s ops).
Proof. intros Hv Hp. induction ops as [|o ops IH]; intros s Hi Ham; cbn [exec]; [assumption|].
  apply IH.
  - apply Linv_step; auto. intros src n h ->. apply Ham.
  - destruct o; cbn in Ham; tauto. Qed.

Lemma Linv_init c start : Linv c (init start).
Proof. split; cbn; [constructor|tauto]. Qed.

(* ---------- set level ---------- *)
Lemma all_admit_set now n s : (forall b, In b s -> fst (consume now n b) = Admit) -> fst (consume_set now n s) = SAdmit.
Proof. intros H. unfold consume_set. rewrite consume_all_map.
  set (os := map (fun b => fst (consume now n b)) s).
  assert (Hos : forall o, In o os -> o = Admit).
  { intros o Ho. unfold os in Ho. apply in_map_iff in Ho. destruct Ho as (b & <- & Hb). auto. }
  assert (A : any_toobig os = false).
  { unfold any_toobig. destruct (existsb _ os) eqn:E; [|reflexivity]. apply existsb_exists in E.
    destruct E as (o & Ho & Hb). rewrite (Hos o Ho) in Hb. discriminate. }
  assert (B : max_delay os <= 0).
  { clear - Hos. induction os as [|o os IH]; cbn; [lia|]. rewrite (Hos o (or_introl eq_refl)). cbn.
    specialize (IH (fun x Hx => Hos x (or_intror Hx))). unfold max_delay in IH. lia. }
  rewrite A. destruct (Z.ltb_spec 0 (max_delay os)); [lia|reflexivity]. Qed.

(* a refused set-consume advertises a delay after which the same amount is admitted *)
Theorem set_wait_suffices rs tnow n s t d tnow' :
  sinv rs s t -> t <= tnow -> 0 <= n -> (forall b, In b s -> n <= burst b) ->
  fst (consume_set tnow n s) = SReject d -> tnow + d <= tnow' ->
  fst (consume_set tnow' n (snd (consume_set tnow n s))) = SAdmit.
Proof. intros Hs Ht Hn Hb Hrej Hlate.
  assert (Hd : d = max_delay (map (fun b => fst (consume tnow n b)) s) /\ 0 < d).
  { unfold consume_set in Hrej. rewrite consume_all_map in Hrej.
    destruct (any_toobig _); [discriminate|]. destruct (Z.ltb_spec 0 (max_delay (map (fun b => fst (consume tnow n b)) s))); [|discriminate].
    cbn in Hrej. inv Hrej. auto. }
  destruct Hd as (Hd & Hdpos).
  rewrite (consume_set_refused rs tnow n s t Hs Ht Hn) by (rewrite Hrej; discriminate).
  apply all_admit_set. intros b1 Hb1. apply in_map_iff in Hb1. destruct Hb1 as (b & <- & Hin).
  assert (Hbi : exists r, conforms r b /\ binv b t).
  { clear - Hs Hin. induction Hs as [|r x rs bs Hx _ IH]; [destruct Hin|]. destruct Hin as [->|Hin]; eauto. }
  destruct Hbi as (r & _ & Hbi).
  destruct (settled_spec tnow b t Hbi Ht) as (Hi1 & _ & Ht1 & Hb1 & _).
  assert (Hw : n <= avail (settled tnow' (settled tnow b))).
  { apply (wait_suffices tnow n b t d tnow' Hbi Ht); try lia; [split; [lia|apply Hb; assumption]|].
    intros Hlt. assert (Hin' : In (fst (consume tnow n b)) (map (fun b => fst (consume tnow n b)) s)) by (apply in_map_iff; eauto).
    pose proof (max_delay_ge _ _ Hin') as Hm. rewrite <- Hd in Hm.
    destruct (consume_cases tnow n b) as [(Hbig & _)|[(_ & _ & E)|(_ & Hge & _)]].
    - rewrite settled_burst in Hbig. specialize (Hb b Hin). lia.
    - rewrite E in Hm. cbn [fst delay_of] in Hm. rewrite Ht1 in Hm. exact Hm.
    - lia. }
  destruct (consume_cases tnow' n (settled tnow b)) as [(Hbig & _)|[(_ & Hlt & _)|(_ & _ & E)]].
  - rewrite settled_burst, Hb1 in Hbig. specialize (Hb b Hin). lia.
  - lia.
  - rewrite E. reflexivity. Qed.

(* a fresh set admits anything within every burst *)
Lemma new_set_admits rs tnow n : Forall valid_rate rs -> 0 <= n -> (forall r, In r rs -> n <= r_burst r) ->
  fst (consume_set tnow n (new_set tnow rs)) = SAdmit.
Proof. intros Hv Hn Hb. apply all_admit_set. intros b Hin. unfold new_set in Hin. apply in_map_iff in Hin.
  destruct Hin as (r & <- & Hr). rewrite Forall_forall in Hv.
  destruct (new_bucket_spec tnow r (Hv r Hr)) as (Hbi & (_ & _ & Hbu)).
  destruct (settled_spec tnow (new_bucket tnow r) tnow Hbi (Z.le_refl _)) as (_ & _ & _ & Hb1 & _ & _ & Hr1 & _).
  assert (Ha : avail (new_bucket tnow r) = r_burst r) by (unfold new_bucket; reflexivity).
  destruct (consume_cases tnow n (new_bucket tnow r)) as [(Hbig & _)|[(_ & Hlt & _)|(_ & _ & E)]].
  - rewrite settled_burst, Hbu in Hbig. specialize (Hb r Hr). lia.
  - specialize (Hb r Hr). lia.
  - rewrite E. reflexivity. Qed.

(* ---------- limiter level: through the TTL map, in every reachable state ---------- *)
Definition advance (s : st) (dt : Z) : st := {| now := now s + dt; tmap := tmap s; last_delay := last_delay s |}.

(* rejected with delay d, nothing else from this source, retried at least d later: admitted
   (an entry that expired in the meantime only helps) *)
Theorem delay_sufficient c s src n hint hint' d dt :
  valid_rates (rates c) -> Linv c s -> 0 <= n -> (forall r, In r (rates c) -> n <= r_burst r) ->
  snd (fst (consume_rates c s src n hint)) = SReject d -> d <= dt ->
  snd (fst (consume_rates c (advance (fst (fst (consume_rates c s src n hint))) dt) src n hint')) = SAdmit.
Proof. intros (Hv & Hp & _) (Hnd & Hs) Hn Hb Hrej Hdt.
  destruct (consume_rates_own c s src n hint Hnd) as (Ho & Hl & Hnow). cbn zeta in *.
  pose proof (Linv_req c s src n hint Hv Hp Hn (conj Hnd Hs)) as (Hnd1 & Hs1).
  set (s1 := fst (fst (consume_rates c s src n hint))) in *.
  destruct (consume_rates_own c (advance s1 dt) src n hint' Hnd1) as (Ho2 & _ & _). cbn zeta in Ho2.
  rewrite Ho2. cbn [advance now tmap]. rewrite Hl, Hnow.
  rewrite Ho in Hrej. unfold local_out in Hrej.
  assert (Hd0 : 0 <= d).
  { unfold consume_set in Hrej. rewrite consume_all_map in Hrej. destruct (any_toobig _); [discriminate|].
    match type of Hrej with context [0 <? ?m] => destruct (Z.ltb_spec 0 m); [|discriminate] end. cbn in Hrej. inv Hrej. lia. }
  assert (Hls : sinv (rates c) (local_set c (now s) (lookup (tmap s) src)) (now s)).
  { apply (local_set_sinv c (now s) (now s)); auto; [|lia]. intros e El. apply Hs. eapply lookup_some_key; eassumption. }
  unfold local_out, local_set at 1, found_of. cbn [local_entry e_exp e_val].
  destruct (Z.leb_spec (now_sec (now s) + ttl_of (local_set c (now s) (lookup (tmap s) src))) (now_sec (now s + dt))).
  - apply new_set_admits; assumption.
  - destruct (consume_set_spec (rates c) (now s) n _ (now s) Hls (Z.le_refl _) Hn) as (_ & _ & Hinv').
    rewrite (update_set_id _ _ _ Hp Hinv').
    eapply set_wait_suffices; [exact Hls|lia|assumption| |exact Hrej|lia].
    intros b Hin. assert (exists r, In r (rates c) /\ conforms r b) as (r & Hr & (_ & _ & Hbu)).
    { clear - Hls Hin. induction Hls as [|r x rs bs [Hx _] _ IH]; [destruct Hin|]. destruct Hin as [->|Hin].
      - exists r. split; [left; reflexivity|assumption].
      - destruct (IH Hin) as (r0 & A & B). exists r0. split; [right; assumption|assumption]. }
    rewrite Hbu. apply Hb; assumption. Qed.

(* a refused request (delay or error) leaves every bucket of the source exactly refreshed: nothing is debited in any rate *)
Theorem reject_free c s src n hint :
  valid_rates (rates c) -> Linv c s -> 0 <= n ->
  snd (fst (consume_rates c s src n hint)) <> SAdmit ->
  exists e, lookup (tmap (fst (fst (consume_rates c s src n hint)))) src = Some e /\
            e_val e = map (settled (now s)) (local_set c (now s) (lookup (tmap s) src)).
Proof. intros (Hv & Hp & _) (Hnd & Hs) Hn Hno.
  destruct (consume_rates_own c s src n hint Hnd) as (Ho & Hl & _). cbn zeta in *.
  eexists. split; [exact Hl|]. cbn [local_entry e_val]. rewrite Ho in Hno.
  assert (Hls : sinv (rates c) (local_set c (now s) (lookup (tmap s) src)) (now s)).
  { apply (local_set_sinv c (now s) (now s)); auto; [|lia]. intros e El. apply Hs. eapply lookup_some_key; eassumption. }
  eapply consume_set_refused; [exact Hls|lia|assumption|exact Hno]. Qed.

(* in particular a live entry's buckets never lose tokens to a refused request *)
Corollary reject_no_debit c s src n hint e b :
  valid_rates (rates c) -> Linv c s -> 0 <= n ->
  lookup (tmap s) src = Some e -> now_sec (now s) < e_exp e -> In b (e_val e) ->
  snd (fst (consume_rates c s src n hint)) <> SAdmit ->
  exists e', lookup (tmap (fst (fst (consume_rates c s src n hint)))) src = Some e' /\
             In (settled (now s) b) (e_val e') /\ avail b <= avail (settled (now s) b).
Proof. intros Hv Hi Hn El Hlive Hb Hno.
  destruct (reject_free c s src n hint Hv Hi Hn Hno) as (e' & Hl & Hv').
  exists e'. split; [assumption|]. destruct Hv as (Hvr & Hp & _). destruct Hi as (Hnd & Hs).
  assert (Hse : sinv (rates c) (e_val e) (now s)) by (apply Hs; eapply lookup_some_key; eassumption).
  rewrite Hv', El. unfold local_set, found_of. destruct (Z.leb_spec (e_exp e) (now_sec (now s))); [lia|].
  rewrite (update_set_id _ _ _ Hp Hse). split; [apply in_map; assumption|].
  assert (exists r, conforms r b /\ binv b (now s)) as (r & _ & Hbi).
  { clear - Hse Hb. induction Hse as [|r x rs bs Hx _ IH]; [destruct Hb|]. destruct Hb as [->|Hb]; eauto. }
  apply (settled_spec (now s) b (now s) Hbi (Z.le_refl _)). Qed.

(* larger than a burst: refused with an error, never a delay, and nothing is debited *)
Theorem over_burst_error c s src n hint r :
  valid_rates (rates c) -> Linv c s -> In r (rates c) -> r_burst r < n ->
  snd (fst (consume_rates c s src n hint)) = SError.
Proof. intros (Hv & Hp & _) (Hnd & Hs) Hr Hbig.
  destruct (consume_rates_own c s src n hint Hnd) as (Ho & _ & _). cbn zeta in *. rewrite Ho. unfold local_out.
  assert (Hls : sinv (rates c) (local_set c (now s) (lookup (tmap s) src)) (now s)).
  { apply (local_set_sinv c (now s) (now s)); auto; [|lia]. intros e El. apply Hs. eapply lookup_some_key; eassumption. }
  assert (exists b, In b (local_set c (now s) (lookup (tmap s) src)) /\ burst b = r_burst r) as (b & Hb & Hbu).
  { clear - Hls Hr. induction Hls as [|r0 x rs bs [(_ & _ & Hx) _] _ IH]; [destruct Hr|]. destruct Hr as [->|Hr].
    - exists x. split; [left; reflexivity|assumption].
    - destruct (IH Hr) as (b & A & B). exists b. split; [right; assumption|assumption]. }
  eapply consume_set_toobig; [exact Hb|lia]. Qed.
