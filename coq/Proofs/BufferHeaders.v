(* Buffer: the header set and the status an attempt ends with do not depend on the ORDER in which the handler sets
   headers, chooses the status and writes: behind the buffer nothing is sent before the handler returns. *)
From Oxy Require Import Base.Prelude Model.Multibuf Model.Buffer.
Open Scope Z_scope.

Definition no_hijack (evs : list event) : Prop := forall e, In e evs -> e <> EHijack.

Definition hdr_effect (h : hmap) (e : event) : hmap := match e with ESetHeader k v => hset k v h | _ => h end.
Definition code_effect (c : Z) (e : event) : Z := match e with EWriteHeader c' => c' | _ => c end.

Lemma ev_step_hdr rq s e : e <> EHijack ->
  b_hdr (h_bw (ev_step rq s e)) = hdr_effect (b_hdr (h_bw s)) e /\
  b_code (h_bw (ev_step rq s e)) = code_effect (b_code (h_bw s)) e /\
  b_hij (h_bw (ev_step rq s e)) = b_hij (h_bw s).
Proof.
  intros Hne. destruct e; cbn [ev_step hdr_effect code_effect set_bw h_bw b_hdr b_code b_hij]; try (repeat split; reflexivity).
  - unfold bw_write. destruct (w_write (b_w (h_bw s)) (gen_body id n) (h_fs s)) as [[w' fs'] ok]. cbn. repeat split.
  - destruct (h_body s) as [r|]; [|repeat split]. destruct (mr_read k r) as [d r']. cbn. repeat split.
  - congruence.
Qed.

(* every header the handler sets before it returns is in the attempt's header set, wherever the status and the writes
   come in between; the attempt's status is the last one chosen *)
Theorem headers_and_status_in_any_order rq : forall evs s, b_hij (h_bw s) = false -> no_hijack evs ->
  b_hdr (h_bw (run_events rq s evs)) = fold_left hdr_effect evs (b_hdr (h_bw s)) /\
  b_code (h_bw (run_events rq s evs)) = fold_left code_effect evs (b_code (h_bw s)).
Proof.
  induction evs as [|e r IH]; intros s Hh Hn; cbn [run_events fold_left]; [split; reflexivity|].
  rewrite Hh. assert (He : e <> EHijack) by (apply Hn; left; reflexivity).
  destruct (ev_step_hdr rq s e He) as (E1 & E2 & E3).
  destruct (IH (ev_step rq s e)) as (I1 & I2).
  - rewrite E3. exact Hh.
  - intros x Hx. apply Hn. right. exact Hx.
  - rewrite I1, I2, E1, E2. split; reflexivity.
Qed.

(* in particular: moving the status (or a write) from before a header to after it changes neither *)
Corollary header_after_status rq s c k v pre post : b_hij (h_bw s) = false ->
  no_hijack (pre ++ post) ->
  let a := run_events rq s (pre ++ EWriteHeader c :: ESetHeader k v :: post) in
  let b := run_events rq s (pre ++ ESetHeader k v :: EWriteHeader c :: post) in
  b_hdr (h_bw a) = b_hdr (h_bw b) /\ b_code (h_bw a) = b_code (h_bw b).
Proof.
  intros Hh Hn a b. subst a b.
  assert (N : forall x y, no_hijack (pre ++ x :: y :: post) <-> (x <> EHijack /\ y <> EHijack /\ no_hijack (pre ++ post))).
  { intros x y. unfold no_hijack. split.
    - intros H. repeat split.
      + apply H. apply in_or_app. right. left. reflexivity.
      + apply H. apply in_or_app. right. right. left. reflexivity.
      + intros e He. apply H. apply in_app_or in He. apply in_or_app. destruct He; [left; assumption|right; right; right; assumption].
    - intros (Hx & Hy & H) e He. apply in_app_or in He. destruct He as [He|[He|[He|He]]].
      + apply H. apply in_or_app. left. exact He.
      + subst e. exact Hx.
      + subst e. exact Hy.
      + apply H. apply in_or_app. right. exact He. }
  destruct (headers_and_status_in_any_order rq (pre ++ EWriteHeader c :: ESetHeader k v :: post) s Hh) as (A1 & A2).
  { apply N. repeat split; try discriminate. exact Hn. }
  destruct (headers_and_status_in_any_order rq (pre ++ ESetHeader k v :: EWriteHeader c :: post) s Hh) as (B1 & B2).
  { apply N. repeat split; try discriminate. exact Hn. }
  rewrite A1, A2, B1, B2, !fold_left_app. cbn [fold_left hdr_effect code_effect]. split; reflexivity.
Qed.
