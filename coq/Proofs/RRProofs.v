(* State-level proofs about Model.RR: invariants of every reachable state, the link between the model's
   own `next`/`nexts` and the slot view (C01), refinement of the pool to a finite map, membership of every
   selection and the downstream frame property (C02). *)
From Coq Require Import ZArith List Arith Lia Bool FMapPositive.
Import ListNotations.
From Oxy Require Import Base.Prelude Model.RR Proofs.RRCount Proofs.RRSlots Proofs.RRLoop Proofs.RRWindow Proofs.RRWeights.
Open Scope Z_scope.

(* ------------------------------------------------------------------------------------------ *)
(* generic list lemmas                                                                          *)
(* ------------------------------------------------------------------------------------------ *)
Lemma map_upd_nth {A B} (f : A -> B) (h : A -> A) (h' : B -> B) j l :
  (forall x, f (h x) = h' (f x)) -> map f (upd_nth j h l) = upd_nth j h' (map f l).
Proof. intros H. revert j; induction l as [|x l IH]; intros [|j]; cbn; try reflexivity; [rewrite H|rewrite IH]; reflexivity. Qed.

Lemma upd_nth_id {A} (h : A -> A) j l : (forall x, h x = x) -> upd_nth j h l = l.
Proof. intros H. revert j; induction l as [|x l IH]; intros [|j]; cbn; try reflexivity; [rewrite H|rewrite IH]; reflexivity. Qed.

Lemma upd_nth_length {A} (h : A -> A) j l : length (upd_nth j h l) = length l.
Proof. revert j; induction l as [|x l IH]; intros [|j]; cbn; auto. Qed.

Lemma nth_upd_nth {A} (h : A -> A) j i l d : (j < length l)%nat ->
  nth i (upd_nth j h l) d = if Nat.eqb i j then h (nth j l d) else nth i l d.
Proof. revert j i; induction l as [|x l IH]; intros [|j] [|i] Hj; cbn in *; try lia; try reflexivity.
  apply IH; lia. Qed.

Lemma In_upd_nth {A} (h : A -> A) j l y : In y (upd_nth j h l) -> In y l \/ exists x, In x l /\ y = h x.
Proof. revert j; induction l as [|x l IH]; intros [|j]; cbn; try tauto.
  - intros [<-|H]; [right; exists x; auto|auto].
  - intros [<-|H]; [auto|]. destruct (IH _ H) as [H'|(z & Hz & ->)]; [auto|right; exists z; auto]. Qed.

Lemma map_remove_nth {A B} (f : A -> B) j l : map f (remove_nth j l) = remove_nth j (map f l).
Proof. unfold remove_nth. rewrite map_app, <- firstn_map, <- skipn_map. reflexivity. Qed.

Lemma In_remove_nth {A} j (l : list A) y : In y (remove_nth j l) -> In y l.
Proof. unfold remove_nth. revert j; induction l as [|x l IH]; intros j.
  - destruct j; cbn; tauto.
  - destruct j; cbn [firstn skipn app]; [intros H; right; exact H|].
    intros [E|H]; [left; exact E|right; apply (IH j), H]. Qed.

Lemma NoDup_remove_nth {A} j (l : list A) : NoDup l -> NoDup (remove_nth j l).
Proof. unfold remove_nth. revert j; induction l as [|x l IH]; intros j H.
  - destruct j; cbn; constructor.
  - inv H. destruct j; cbn [firstn skipn app]; [assumption|].
    constructor; [|apply IH; assumption].
    intros Hin. apply H2. apply (In_remove_nth j l x). exact Hin. Qed.

Lemma remove_nth_not_in {A} j (l : list A) d : NoDup l -> (j < length l)%nat -> ~ In (nth j l d) (remove_nth j l).
Proof. unfold remove_nth. revert j; induction l as [|x l IH]; intros j H Hj; [cbn in Hj; lia|].
  inv H. destruct j; cbn [firstn skipn app nth]; [assumption|].
  intros [E|Hin]; [apply H2; rewrite E; apply nth_In; cbn in Hj; lia|].
  apply (IH j H3 ltac:(cbn in Hj; lia)). exact Hin. Qed.

Lemma remove_nth_length {A} j (l : list A) : (j < length l)%nat -> length (remove_nth j l) = (length l - 1)%nat.
Proof. intros Hj. unfold remove_nth. rewrite app_length, firstn_length, skipn_length. lia. Qed.

(* first index of a key *)
Fixpoint kfind (k : Z) (l : list Z) : option nat :=
  match l with
  | [] => None
  | x :: r => if k =? x then Some O else option_map S (kfind k r)
  end.

Lemma kfind_none k l : kfind k l = None <-> ~ In k l.
Proof. induction l as [|x l IH]; cbn; [tauto|]. destruct (Z.eqb_spec k x) as [E|E].
  - split; [discriminate|]. intros H; exfalso; apply H; auto.
  - destruct (kfind k l) as [j|]; cbn.
    + split; [discriminate|]. intros H. exfalso. apply H. right.
      destruct (in_dec Z.eq_dec k l) as [Hin|Hnin]; [assumption|].
      destruct IH as [_ IH]. specialize (IH Hnin). discriminate.
    + split; [|reflexivity]. intros _ [E'|H]; [congruence|]. apply (proj1 IH eq_refl H). Qed.

Lemma kfind_some k l j : kfind k l = Some j -> (j < length l)%nat /\ nth j l 0 = k.
Proof. revert j; induction l as [|x l IH]; cbn; intros j; [discriminate|]. destruct (Z.eqb_spec k x).
  - intros E; inv E. split; [lia|auto].
  - destruct (kfind k l) as [j'|]; cbn; [|discriminate]. intros E; inv E.
    destruct (IH j' eq_refl). split; [lia|assumption]. Qed.

Lemma kfind_nth l j : NoDup l -> (j < length l)%nat -> kfind (nth j l 0) l = Some j.
Proof. revert j; induction l as [|x l IH]; intros j H Hj; [cbn in Hj; lia|]. inv H. destruct j; cbn.
  - rewrite Z.eqb_refl. reflexivity.
  - destruct (Z.eqb_spec (nth j l 0) x) as [E|E]; [exfalso; apply H2; rewrite <- E; apply nth_In; cbn in Hj; lia|].
    rewrite IH by (auto; cbn in Hj; lia). reflexivity. Qed.

(* ------------------------------------------------------------------------------------------ *)
(* the heap                                                                                     *)
(* ------------------------------------------------------------------------------------------ *)
Lemma hget_hset_same h l u : hget (hset h l u) l = u.
Proof. unfold hget, hset. rewrite PositiveMap.gss. reflexivity. Qed.

Lemma hget_hset_other h l u l' : l' <> l -> hget (hset h l u) l' = hget h l'.
Proof. intros H. unfold hget, hset. rewrite PositiveMap.gso by exact H. reflexivity. Qed.

(* ------------------------------------------------------------------------------------------ *)
(* views of the state                                                                           *)
(* ------------------------------------------------------------------------------------------ *)
Definition keys (s : st) : list Z := map (fun sv => ukey (srv_url s sv)) (servers s).
Definition slocs (s : st) : list loc := map sloc (servers s).

Lemma pool_keys s : map fst (pool s) = keys s.
Proof. unfold pool, keys. rewrite map_map. reflexivity. Qed.
Lemma pool_weights s : map snd (pool s) = weights s.
Proof. unfold pool, weights. rewrite map_map. reflexivity. Qed.
Lemma keys_length s : length (keys s) = length (servers s).
Proof. unfold keys. apply map_length. Qed.
Lemma weights_length s : length (weights s) = length (servers s).
Proof. unfold weights. apply map_length. Qed.

(* keys and dump depend on the heap only through the servers' own locations *)
Lemma keys_ext s s' : servers s' = servers s ->
  (forall sv, In sv (servers s) -> hget (hp s') (sloc sv) = hget (hp s) (sloc sv)) -> keys s' = keys s.
Proof. intros E H. unfold keys, srv_url. rewrite E. apply map_ext_in. intros sv Hsv. rewrite H by assumption. reflexivity. Qed.

Lemma pool_ext s s' : servers s' = servers s ->
  (forall sv, In sv (servers s) -> hget (hp s') (sloc sv) = hget (hp s) (sloc sv)) -> pool s' = pool s.
Proof. intros E H. unfold pool, srv_url. rewrite E. apply map_ext_in. intros sv Hsv. rewrite H by assumption. reflexivity. Qed.

Lemma dump_ext s s' : servers s' = servers s ->
  (forall sv, In sv (servers s) -> hget (hp s') (sloc sv) = hget (hp s) (sloc sv)) -> dump s' = dump s.
Proof. intros E H. unfold dump, srv_url. rewrite E. rewrite !flat_map_concat_map. f_equal.
  apply map_ext_in. intros sv Hsv. rewrite H by assumption. reflexivity. Qed.

Lemma find_idx_keys h u svs : find_idx h u svs = kfind (ukey u) (map (fun sv => ukey (hget h (sloc sv))) svs).
Proof. induction svs as [|sv r IH]; cbn; [reflexivity|]. unfold same_url. rewrite IH. reflexivity. Qed.

Lemma find_idx_spec s u : find_idx (hp s) u (servers s) = kfind (ukey u) (keys s).
Proof. apply find_idx_keys. Qed.

(* ------------------------------------------------------------------------------------------ *)
(* the invariant of reachable states                                                            *)
(* ------------------------------------------------------------------------------------------ *)
Definition nonneg (ws : list Z) := Forall (fun w => 0 <= w) ws.
Definition somepos (ws : list Z) := Exists (fun w => 0 < w) ws.
Definition allzero (ws : list Z) := Forall (fun w => w = 0) ws.

Lemma nonneg_split ws : nonneg ws -> allzero ws \/ somepos ws.
Proof. induction 1 as [|w ws Hw _ IH]; [left; constructor|].
  destruct (Z.eq_dec w 0) as [->|Hn]; [|right; left; lia].
  destruct IH as [IH|IH]; [left; constructor; auto|right; right; exact IH]. Qed.

Lemma allzero_not_somepos ws : allzero ws -> somepos ws -> False.
Proof. intros Hz Hp. apply Exists_exists in Hp. destruct Hp as (w & Hw & Hpos).
  rewrite (proj1 (Forall_forall _ _) Hz w Hw) in Hpos. lia. Qed.

(* the iterator: after a pool change (-1, 0); otherwise the state just before some slot of the sweep *)
Definition slot_pre (ws : list Z) (i c : Z) : Prop :=
  exists t, RRLoop.pre ws (weight_gcd ws) (max_weight ws) (periods ws) t i c.

Definition iter_ok (s : st) : Prop :=
  let ws := weights s in
  (somepos ws -> slot_pre ws (idx s) (cw s)) /\
  (allzero ws -> ws <> [] -> cw s = 0 /\ idx s = -1).

Definition locs_ok (s : st) : Prop :=
  NoDup (slocs s) /\
  (forall l, In l (slocs s) -> (l < nloc s)%positive) /\
  (forall l, In l (handed s) -> (l < nloc s)%positive) /\
  (forall l, In l (slocs s) -> ~ In l (handed s)).

Record Inv (s : st) : Prop := {
  inv_nonneg : nonneg (weights s);
  inv_iter : iter_ok s;
  inv_locs : locs_ok s;
  inv_keys : NoDup (keys s)
}.

(* ------------------------------------------------------------------------------------------ *)
(* nextServer on the model state                                                                *)
(* ------------------------------------------------------------------------------------------ *)
Lemma somepos_ne ws : somepos ws -> ws <> [].
Proof. intros H E. rewrite E in H. inv H. Qed.

Lemma weights_set_iter s i c : weights (set_iter s i c) = weights s.
Proof. reflexivity. Qed.

(* one call from a slot state: succeeds within the fuel, lands on a slot state, picks a positive weight *)
Lemma loop_total' ws i c : nonneg ws -> somepos ws -> slot_pre ws i c ->
  exists i' c', next_loop ws (weight_gcd ws) (max_weight ws) (2 * length ws) i c = Sel i' c' /\
    slot_pre ws i' c' /\ 0 <= i' < Z.of_nat (length ws) /\ 0 < nth (Z.to_nat i') ws 0.
Proof. intros Hn Hp (t & Hpre).
  destruct (loop_total ws _ _ (periods ws) (dis_n_pos ws Hn Hp) (dis_M_pos ws Hn Hp) (dis_g_pos ws Hn Hp)
    (dis_m_eq ws Hn Hp) (dis_m_att ws Hn Hp) t i c Hpre) as (d & Hsel & _ & Hloop & Hpre').
  eexists _, _. split; [exact Hloop|]. split; [exists (S (t + d)); exact Hpre'|].
  pose proof (col_lt ws (periods ws) (dis_n_pos ws Hn Hp) (dis_M_pos ws Hn Hp) (t + d)) as Hc.
  split; [lia|]. rewrite Nat2Z.id.
  unfold RRSlots.sel in Hsel. apply Z.leb_le in Hsel.
  pose proof (lvl_pos ws _ _ (periods ws) (dis_n_pos ws Hn Hp) (dis_M_pos ws Hn Hp) (dis_g_pos ws Hn Hp)
    (dis_m_eq ws Hn Hp) _ (row_lt ws (periods ws) (dis_n_pos ws Hn Hp) (dis_M_pos ws Hn Hp) (t + d))).
  unfold RRSlots.wt in Hsel. lia. Qed.

Lemma next_somepos s : nonneg (weights s) -> somepos (weights s) -> slot_pre (weights s) (idx s) (cw s) ->
  exists i c, next s = (set_iter s i c, Picked (Z.to_nat i)) /\ slot_pre (weights s) i c /\
    0 <= i < Z.of_nat (length (weights s)) /\ 0 < nth (Z.to_nat i) (weights s) 0.
Proof. intros Hn Hp Hpre. destruct (loop_total' _ _ _ Hn Hp Hpre) as (i & c & Hl & H1 & H2 & H3).
  exists i, c. split; [|auto]. unfold next.
  destruct (servers s) as [|sv r] eqn:E.
  - exfalso. apply (somepos_ne _ Hp). unfold weights. rewrite E. reflexivity.
  - rewrite Hl. reflexivity. Qed.

Lemma fold_gcd_zero ws : allzero ws -> fold_left Z.gcd ws 0 = 0.
Proof. induction 1 as [|w ws Hw _ IH]; [reflexivity|]. subst w. cbn. exact IH. Qed.

Lemma allzero_nonneg ws : allzero ws -> nonneg ws.
Proof. intros H. eapply Forall_impl; [|exact H]. cbv beta. intros; lia. Qed.

Lemma allzero_nth ws i : allzero ws -> nth i ws 0 = 0.
Proof. intros H. destruct (Nat.lt_ge_cases i (length ws)) as [Hi|Hi].
  - apply (proj1 (Forall_forall _ _) H). apply nth_In, Hi.
  - apply nth_overflow, Hi. Qed.

(* all weights zero, iterator reset: the call errs and leaves the iterator reset *)
Lemma next_allzero s : weights s <> [] -> allzero (weights s) -> cw s = 0 -> idx s = -1 ->
  next s = (set_iter s (-1) 0, AllZero).
Proof. intros Hne Hz Hc Hi. unfold next.
  destruct (servers s) as [|sv r] eqn:E; [exfalso; apply Hne; unfold weights; rewrite E; reflexivity|].
  rewrite (weight_gcd_spec _ Hne (allzero_nonneg _ Hz)). rewrite fold_gcd_zero by assumption.
  rewrite (proj2 (max_weight_zero _ Hne (allzero_nonneg _ Hz)) Hz).
  assert (Hlen : (0 < length (weights s))%nat) by (destruct (weights s); [congruence|cbn; lia]).
  destruct (2 * length (weights s))%nat as [|f] eqn:Ef; [lia|]. cbn [next_loop].
  rewrite Hi, Hc. cbn [Z.add]. rewrite Z.rem_0_l by lia. cbn. reflexivity. Qed.

Lemma next_weights s : weights (fst (next s)) = weights s /\ servers (fst (next s)) = servers s /\
  hp (fst (next s)) = hp s /\ nloc (fst (next s)) = nloc s /\ handed (fst (next s)) = handed s.
Proof. unfold next. destruct (servers s) eqn:E; [cbn; rewrite ?E; repeat split; reflexivity|].
  destruct next_loop; cbn; unfold weights; cbn; rewrite ?E; repeat split; reflexivity. Qed.

(* the iterator invariant is kept by nextServer, whatever it returns *)
Lemma next_iter_ok s : nonneg (weights s) -> iter_ok s -> iter_ok (fst (next s)).
Proof. intros Hn [Hsp Haz]. destruct (nonneg_split _ Hn) as [Hz|Hp].
  - destruct (list_eq_dec Z.eq_dec (weights s) []) as [Hemp|Hne].
    + unfold next. destruct (servers s) eqn:E; [cbn; split; assumption|]. unfold weights in Hemp. rewrite E in Hemp. discriminate.
    + destruct (Haz Hz Hne) as [Hc Hi]. rewrite (next_allzero s Hne Hz Hc Hi). cbn [fst].
      split; cbn [weights set_iter idx cw servers]; fold (weights s).
      * intros Hp. destruct (allzero_not_somepos _ Hz Hp).
      * intros _ _. split; reflexivity.
  - destruct (next_somepos s Hn Hp (Hsp Hp)) as (i & c & E & Hpre & _). rewrite E. cbn [fst].
    split; cbn [weights set_iter idx cw servers]; fold (weights s).
    + intros _. exact Hpre.
    + intros Hz. destruct (allzero_not_somepos _ Hz Hp). Qed.

Lemma next_Inv s : Inv s -> Inv (fst (next s)).
Proof. intros [H1 H2 H3 H4]. destruct (next_weights s) as (Ew & Es & Eh & En & Ehd).
  split.
  - rewrite Ew. exact H1.
  - apply next_iter_ok; assumption.
  - unfold locs_ok, slocs in *. rewrite Es, En, Ehd. exact H3.
  - rewrite (keys_ext s (fst (next s)) Es) by (intros; rewrite Eh; reflexivity). exact H4. Qed.

(* C01_next_terminates *)
Lemma next_no_fuel s : Inv s -> snd (next s) <> Fuel.
Proof. intros [Hn [Hsp Haz] _ _]. destruct (nonneg_split _ Hn) as [Hz|Hp].
  - destruct (list_eq_dec Z.eq_dec (weights s) []) as [Hemp|Hne].
    + unfold next. destruct (servers s) eqn:E; [cbn; discriminate|]. unfold weights in Hemp. rewrite E in Hemp. discriminate.
    + destruct (Haz Hz Hne) as [Hc Hi]. rewrite (next_allzero s Hne Hz Hc Hi). cbn [snd]. discriminate.
  - destruct (next_somepos s Hn Hp (Hsp Hp)) as (i & c & E & _). rewrite E. discriminate. Qed.

Lemma next_empty s : servers s = [] -> next s = (s, NoServers).
Proof. intros E. unfold next. rewrite E. reflexivity. Qed.

(* nexts *)
Lemma nexts_app a b s :
  snd (nexts (a + b) s) = snd (nexts a s) ++ snd (nexts b (fst (nexts a s))) /\
  fst (nexts (a + b) s) = fst (nexts b (fst (nexts a s))).
Proof. revert s; induction a as [|a IH]; intros s; [cbn; auto|]. cbn [plus nexts].
  destruct (next s) as [s1 r]. specialize (IH s1).
  destruct (nexts (a + b) s1) as [s2 rs]. destruct (nexts a s1) as [s3 rs3]. cbn [fst snd] in *.
  destruct IH as [IH1 IH2]. rewrite IH1. split; [reflexivity|exact IH2]. Qed.

Lemma nexts_length n s : length (snd (nexts n s)) = n.
Proof. revert s; induction n as [|n IH]; intros s; [reflexivity|]. cbn [nexts].
  destruct (next s) as [s1 r]. specialize (IH s1). destruct (nexts n s1). cbn in *. lia. Qed.

Lemma nexts_Inv n s : Inv s -> Inv (fst (nexts n s)) /\ weights (fst (nexts n s)) = weights s /\
  servers (fst (nexts n s)) = servers s /\ hp (fst (nexts n s)) = hp s /\ nloc (fst (nexts n s)) = nloc s /\
  handed (fst (nexts n s)) = handed s.
Proof. revert s; induction n as [|n IH]; intros s H; [cbn; auto 10|]. cbn [nexts].
  pose proof (next_Inv s H) as H1. destruct (next_weights s) as (Ew & Es & Eh & En & Ehd).
  destruct (next s) as [s1 r]. cbn [fst] in *. specialize (IH s1 H1).
  destruct (nexts n s1) as [s2 rs]. cbn [fst] in *.
  destruct IH as (I & A & B & C & D & E). split; [exact I|]. repeat split; congruence. Qed.

(* the model's nexts and the slot view's run *)
Lemma run_nexts k : forall s l, servers s <> [] ->
  RRLoop.run (weights s) (weight_gcd (weights s)) (max_weight (weights s)) (2 * length (weights s)) k (idx s) (cw s) = Some l ->
  snd (nexts k s) = map (fun i => Picked (Z.to_nat i)) l.
Proof. induction k as [|k IH]; intros s l Hne Hrun; cbn [RRLoop.run] in Hrun; [inv Hrun; reflexivity|].
  cbn [nexts]. unfold next. destruct (servers s) as [|sv r] eqn:E; [congruence|].
  destruct next_loop as [i c| |]; try discriminate.
  destruct (RRLoop.run _ _ _ _ k i c) as [l'|] eqn:Er; [|discriminate]. cbn in Hrun. inv Hrun.
  specialize (IH (set_iter s i c) l'). cbn [weights set_iter servers idx cw] in IH. fold (weights s) in IH.
  rewrite E in IH. specialize (IH ltac:(discriminate) Er).
  destruct (nexts k (set_iter s i c)) as [s2 rs]. cbn [snd] in *. rewrite IH. reflexivity. Qed.

Lemma count_pick_map i l : Forall (fun c => 0 <= c) l ->
  count_pick i (map (fun c => Picked (Z.to_nat c)) l) = RRWindow.occ i l.
Proof. unfold count_pick, RRWindow.occ. induction 1 as [|c l Hc _ IH]; [reflexivity|]. cbn [map filter].
  destruct (Nat.eqb_spec (Z.to_nat c) i), (Z.eqb_spec c (Z.of_nat i)); try lia; cbn [length]; rewrite IH; reflexivity. Qed.

Lemma rotation_W ws : nonneg ws -> somepos ws ->
  rotation ws = RRWindow.W ws (weight_gcd ws) (max_weight ws) (periods ws).
Proof. intros Hn Hp. unfold rotation.
  rewrite <- (W_sum ws _ _ (periods ws) (dis_n_pos ws Hn Hp) (dis_M_pos ws Hn Hp) (dis_g_pos ws Hn Hp)
    (dis_m_eq ws Hn Hp) (dis_ws_div ws Hn Hp)). apply Nat2Z.id. Qed.

Definition good_pick (ws : list Z) (r : nres) : Prop :=
  exists i, r = Picked i /\ (i < length ws)%nat /\ 0 < nth i ws 0.

(* C01 on the model state: from any slot state, selections k+1 .. k+W hold server i exactly w_i/g times *)
Theorem window_state s k : nonneg (weights s) -> somepos (weights s) -> slot_pre (weights s) (idx s) (cw s) ->
  exists before win,
    snd (nexts (k + rotation (weights s)) s) = before ++ win /\
    length before = k /\ length win = rotation (weights s) /\
    (forall i, (i < length (weights s))%nat ->
       Z.of_nat (count_pick i win) = nth i (weights s) 0 / weight_gcd (weights s)) /\
    Forall (good_pick (weights s)) (before ++ win).
Proof. intros Hn Hp (t & Hpre). set (ws := weights s) in *.
  destruct (window_from ws _ _ (periods ws) (dis_n_pos ws Hn Hp) (dis_M_pos ws Hn Hp) (dis_g_pos ws Hn Hp)
    (dis_m_eq ws Hn Hp) (dis_ws_div ws Hn Hp) (dis_some_pos ws Hp) (dis_m_att ws Hn Hp) t _ _ k Hpre)
    as (before & win & Hrun & Hb & Hw & Hocc & Hall).
  rewrite <- rotation_W in Hrun, Hw by assumption.
  assert (Hne : servers s <> []).
  { intros E. apply (somepos_ne _ Hp). unfold ws, weights. rewrite E. reflexivity. }
  pose proof (run_nexts _ s _ Hne Hrun) as Hnx. fold ws in Hnx.
  exists (map (fun i => Picked (Z.to_nat i)) before), (map (fun i => Picked (Z.to_nat i)) win).
  rewrite <- map_app, !map_length. repeat split; try assumption.
  - intros i Hi. rewrite count_pick_map; [apply Hocc, Hi|].
    apply Forall_app in Hall. destruct Hall as [_ Hall]. eapply Forall_impl; [|exact Hall].
    cbv beta. intros c (j & -> & _). lia.
  - apply Forall_forall. intros r Hr. apply in_map_iff in Hr. destruct Hr as (c & <- & Hc).
    destruct (proj1 (Forall_forall _ _) Hall c Hc) as (j & -> & Hj & Hpos).
    exists j. rewrite Nat2Z.id. auto. Qed.

(* ------------------------------------------------------------------------------------------ *)
(* every operation keeps the invariant                                                          *)
(* ------------------------------------------------------------------------------------------ *)
Lemma iter_ok_ext s s' : weights s' = weights s -> idx s' = idx s -> cw s' = cw s -> iter_ok s -> iter_ok s'.
Proof. unfold iter_ok. intros -> -> ->. auto. Qed.

Lemma iter_ok_reset s : nonneg (weights s) -> idx s = -1 -> cw s = 0 -> iter_ok s.
Proof. intros Hn Hi Hc. split.
  - intros Hp. exists O. left. auto.
  - intros _ Hne. split; assumption. Qed.

Lemma NoDup_snoc {A} (l : list A) x : NoDup l -> ~ In x l -> NoDup (l ++ [x]).
Proof. intros H Hx. induction H as [|y l Hy H IH]; cbn; [constructor; [tauto|constructor]|].
  constructor.
  - intros Hin. apply in_app_or in Hin. destruct Hin as [Hin|[E|[]]]; [auto|]. apply Hx. left. auto.
  - apply IH. intros Hin. apply Hx. right. exact Hin. Qed.

Lemma Pos_lt_succ_r a b : (a < b)%positive -> (a < Pos.succ b)%positive.
Proof. lia. Qed.

(* allocate a copy and hand it out: nothing the pool can see changes *)
Definition hand_copy (s : st) (u : url) : st := hand (fst (alloc s u)) (nloc s).

Lemma hand_copy_facts s u : Inv s ->
  let s' := hand_copy s u in
  Inv s' /\ servers s' = servers s /\ idx s' = idx s /\ cw s' = cw s /\
  keys s' = keys s /\ pool s' = pool s /\ dump s' = dump s /\ handed s' = nloc s :: handed s /\
  hget (hp s') (nloc s) = u.
Proof. intros [H1 H2 (L1 & L2 & L3 & L4) H4] s'.
  assert (Hh : forall sv, In sv (servers s) -> hget (hp s') (sloc sv) = hget (hp s) (sloc sv)).
  { intros sv Hsv. cbn. apply hget_hset_other. specialize (L2 (sloc sv) (in_map _ _ _ Hsv)). lia. }
  assert (Ek : keys s' = keys s) by (apply keys_ext; [reflexivity|exact Hh]).
  split; [split|].
  - exact H1.
  - apply (iter_ok_ext s s'); auto.
  - unfold locs_ok, slocs. cbn [s' hand_copy hand alloc fst servers nloc handed]. repeat split.
    + exact L1.
    + intros l Hl. apply Pos_lt_succ_r, L2, Hl.
    + intros l [<-|Hl]; [lia|apply Pos_lt_succ_r, L3, Hl].
    + intros l Hl [<-|Hh']; [specialize (L2 _ Hl); lia|exact (L4 l Hl Hh')].
  - rewrite Ek. exact H4.
  - repeat split; try reflexivity; try assumption.
    + apply pool_ext; [reflexivity|exact Hh].
    + apply dump_ext; [reflexivity|exact Hh].
    + cbn. apply hget_hset_same. Qed.

(* --- UpsertServer --- *)
Lemma upsert_existing_facts s j w : Inv s -> (j < length (servers s))%nat -> 0 <= w ->
  let s' := reset (set_servers s (upd_nth j (set_weight w) (servers s))) in
  Inv s' /\ keys s' = keys s /\ weights s' = upd_nth j (fun _ => w) (weights s) /\
  hp s' = hp s /\ handed s' = handed s /\ nloc s' = nloc s.
Proof. intros [H1 H2 H3 H4] Hj Hw s'.
  assert (Ek : keys s' = keys s).
  { unfold keys, s'. cbn [reset set_iter set_servers servers]. unfold srv_url. cbn [hp set_iter set_servers reset].
    rewrite (map_upd_nth _ _ (fun x => x)) by reflexivity. apply upd_nth_id. reflexivity. }
  assert (Ew : weights s' = upd_nth j (fun _ => w) (weights s)).
  { unfold weights, s'. cbn [reset set_iter set_servers servers]. apply map_upd_nth. reflexivity. }
  assert (El : slocs s' = slocs s).
  { unfold slocs, s'. cbn [reset set_iter set_servers servers].
    rewrite (map_upd_nth _ _ (fun x => x)) by reflexivity. apply upd_nth_id. reflexivity. }
  split; [split|auto 10].
  - rewrite Ew. apply Forall_forall. intros x Hx. destruct (In_upd_nth _ _ _ _ Hx) as [Hin|(y & _ & ->)]; [|exact Hw].
    apply (proj1 (Forall_forall _ _) H1 x Hin).
  - apply iter_ok_reset; [|reflexivity|reflexivity].
    rewrite Ew. apply Forall_forall. intros x Hx. destruct (In_upd_nth _ _ _ _ Hx) as [Hin|(y & _ & ->)]; [|exact Hw].
    apply (proj1 (Forall_forall _ _) H1 x Hin).
  - unfold locs_ok. rewrite El. exact H3.
  - rewrite Ek. exact H4. Qed.

Lemma upsert_new_facts s u w : Inv s -> ~ In (ukey u) (keys s) -> 0 <= w ->
  let s1 := fst (alloc s u) in
  let s' := reset (set_servers s1 (servers s1 ++ [{| sloc := nloc s; sw := w |}])) in
  Inv s' /\ keys s' = keys s ++ [ukey u] /\ weights s' = weights s ++ [w] /\ handed s' = handed s.
Proof. intros [H1 H2 (L1 & L2 & L3 & L4) H4] Hk Hw s1 s'.
  assert (Ek : keys s' = keys s ++ [ukey u]).
  { unfold keys, s', s1. cbn [reset set_iter set_servers servers alloc fst]. rewrite map_app. f_equal.
    - apply map_ext_in. intros sv Hsv. unfold srv_url. cbn [hp set_iter set_servers reset].
      rewrite hget_hset_other; [reflexivity|]. specialize (L2 (sloc sv) (in_map _ _ _ Hsv)). lia.
    - cbn [map]. unfold srv_url. cbn [hp set_iter set_servers reset sloc]. rewrite hget_hset_same. reflexivity. }
  assert (Ew : weights s' = weights s ++ [w]).
  { unfold weights, s', s1. cbn [reset set_iter set_servers servers alloc fst]. rewrite map_app. reflexivity. }
  assert (El : slocs s' = slocs s ++ [nloc s]).
  { unfold slocs, s', s1. cbn [reset set_iter set_servers servers alloc fst]. rewrite map_app. reflexivity. }
  assert (Hn' : nonneg (weights s')).
  { rewrite Ew. apply Forall_app. split; [exact H1|constructor; [exact Hw|constructor]]. }
  split; [split|auto].
  - exact Hn'.
  - apply iter_ok_reset; [exact Hn'|reflexivity|reflexivity].
  - unfold locs_ok. rewrite El. cbn [s' s1 reset set_iter set_servers alloc fst nloc handed]. repeat split.
    + apply NoDup_snoc; [exact L1|]. intros Hin. specialize (L2 _ Hin). lia.
    + intros l Hl. apply in_app_or in Hl. destruct Hl as [Hl|[<-|[]]]; [apply Pos_lt_succ_r, L2, Hl|lia].
    + intros l Hl. apply Pos_lt_succ_r, L3, Hl.
    + intros l Hl Hh. apply in_app_or in Hl. destruct Hl as [Hl|[<-|[]]]; [exact (L4 l Hl Hh)|].
      specialize (L3 _ Hh). lia.
  - rewrite Ek. apply NoDup_snoc; assumption. Qed.

Lemma remove_facts s j : Inv s -> (j < length (servers s))%nat ->
  let s' := reset (set_servers s (remove_nth j (servers s))) in
  Inv s' /\ keys s' = remove_nth j (keys s) /\ weights s' = remove_nth j (weights s) /\ handed s' = handed s.
Proof. intros [H1 H2 (L1 & L2 & L3 & L4) H4] Hj s'.
  assert (Ek : keys s' = remove_nth j (keys s)).
  { unfold keys, s'. cbn [reset set_iter set_servers servers]. unfold srv_url. cbn [hp set_iter set_servers reset].
    apply map_remove_nth. }
  assert (Ew : weights s' = remove_nth j (weights s)).
  { unfold weights, s'. cbn [reset set_iter set_servers servers]. apply map_remove_nth. }
  assert (El : slocs s' = remove_nth j (slocs s)).
  { unfold slocs, s'. cbn [reset set_iter set_servers servers]. apply map_remove_nth. }
  assert (Hn' : nonneg (weights s')).
  { rewrite Ew. apply Forall_forall. intros x Hx. apply (proj1 (Forall_forall _ _) H1 x), (In_remove_nth j), Hx. }
  split; [split|auto].
  - exact Hn'.
  - apply iter_ok_reset; [exact Hn'|reflexivity|reflexivity].
  - unfold locs_ok. rewrite El. cbn [s' reset set_iter set_servers nloc handed]. repeat split.
    + apply NoDup_remove_nth, L1.
    + intros l Hl. apply L2, (In_remove_nth j), Hl.
    + exact L3.
    + intros l Hl. apply L4, (In_remove_nth j), Hl.
  - rewrite Ek. apply NoDup_remove_nth, H4. Qed.

Lemma kfind_lt s k j : kfind k (keys s) = Some j -> (j < length (servers s))%nat.
Proof. intros H. apply kfind_some in H. rewrite keys_length in H. tauto. Qed.

Lemma upsert_Inv dw s u wo : 0 <= dw -> Inv s -> Inv (fst (upsert dw s u wo)).
Proof. intros Hdw H. unfold upsert. rewrite find_idx_spec.
  destruct (kfind (ukey u) (keys s)) as [j|] eqn:Ef.
  - destruct wo as [w|].
    + destruct (Z.ltb_spec w 0); [exact H|]. apply upsert_existing_facts; [exact H|eapply kfind_lt, Ef|lia].
    + cbn [fst]. destruct H as [H1 H2 H3 H4]. split; try assumption. apply iter_ok_reset; auto.
  - apply kfind_none in Ef.
    destruct (Z.ltb_spec (match wo with Some w => w | None => 0 end) 0); [exact H|].
    cbn [alloc]. cbn [fst].
    apply (upsert_new_facts s u (if (match wo with Some w => w | None => 0 end) =? 0 then dw
                                  else match wo with Some w => w | None => 0 end) H Ef).
    destruct (_ =? 0); lia. Qed.

Lemma remove_Inv s u : Inv s -> Inv (fst (remove s u)).
Proof. intros H. unfold remove. rewrite find_idx_spec.
  destruct (kfind (ukey u) (keys s)) as [j|] eqn:Ef; [|exact H].
  apply remove_facts; [exact H|eapply kfind_lt, Ef]. Qed.

Lemma next_server_eq s :
  next_server s =
  match next s with
  | (s1, Picked i) => let u := srv_url s1 (nth i (servers s1) nosrv) in (hand_copy s1 u, Picked i, u)
  | (s1, r) => (s1, r, nourl)
  end.
Proof. unfold next_server. destruct (next s) as [s1 r]. destruct r; reflexivity. Qed.

Lemma serve_eq sticky s c :
  serve sticky s c =
  match (if sticky then match c with Some k => find_idx (hp s) (k, -1) (servers s) | None => None end else None) with
  | Some j => let u := srv_url s (nth j (servers s) nosrv) in (hand_copy s u, [200; ukey u; uid u; 1])
  | None => match next_server s with
            | (s1, Picked _, u) => (s1, [200; ukey u; uid u; 0])
            | (s1, _, _) => (s1, [500; -1; -1; 0])
            end
  end.
Proof. unfold serve. destruct (if sticky then _ else _); [reflexivity|].
  destruct (next_server s) as [[s1 r] u]. destruct r; reflexivity. Qed.

Lemma next_server_Inv s : Inv s -> Inv (fst (fst (next_server s))).
Proof. intros H. unfold next_server. pose proof (next_Inv s H) as H1. destruct (next s) as [s1 r]. cbn [fst] in H1.
  destruct r; cbn [fst]; try exact H1.
  apply (hand_copy_facts s1 _ H1). Qed.

Lemma serve_Inv sticky s c : Inv s -> Inv (fst (serve sticky s c)).
Proof. intros H. unfold serve.
  destruct (if sticky then match c with Some k => find_idx (hp s) (k, -1) (servers s) | None => None end else None) as [j|].
  - cbn [alloc fst]. apply (hand_copy_facts s _ H).
  - pose proof (next_server_Inv s H) as H1. destruct (next_server s) as [[s1 r] u]. cbn [fst] in H1.
    destruct r; exact H1. Qed.

Lemma scribble_facts s l u : Inv s -> In l (handed s) ->
  let s' := {| idx := idx s; cw := cw s; servers := servers s; hp := hset (hp s) l u; nloc := nloc s; handed := handed s |} in
  Inv s' /\ keys s' = keys s /\ pool s' = pool s /\ dump s' = dump s.
Proof. intros [H1 H2 (L1 & L2 & L3 & L4) H4] Hl s'.
  assert (Hh : forall sv, In sv (servers s) -> hget (hp s') (sloc sv) = hget (hp s) (sloc sv)).
  { intros sv Hsv. cbn. apply hget_hset_other. intros E. apply (L4 (sloc sv) (in_map _ _ _ Hsv)). rewrite E. exact Hl. }
  assert (Ek : keys s' = keys s) by (apply keys_ext; [reflexivity|exact Hh]).
  split; [split|].
  - exact H1.
  - apply (iter_ok_ext s s'); auto.
  - unfold locs_ok, slocs. cbn [s' servers nloc handed]. auto.
  - rewrite Ek. exact H4.
  - repeat split; [exact Ek|apply pool_ext|apply dump_ext]; auto. Qed.

Definition scribble_target (s : st) (h : nat) : option loc :=
  (if h <? length (handed s) then nth_error (handed s) (length (handed s) - 1 - h) else None)%nat.

Lemma scribble_target_in s h l : scribble_target s h = Some l -> In l (handed s).
Proof. unfold scribble_target. destruct (_ <? _)%nat; [|discriminate]. apply nth_error_In. Qed.

Theorem step_Inv dw sticky s o : 0 <= dw -> Inv s -> Inv (fst (step dw sticky s o)).
Proof. intros Hdw H. destruct o as [u wo|u| |u| |c|h u|mult|]; cbn [step].
  - pose proof (upsert_Inv dw s u wo Hdw H). destruct (upsert dw s u wo). exact H0.
  - pose proof (remove_Inv s u H). destruct (remove s u). exact H0.
  - pose proof (next_server_Inv s H). destruct (next_server s) as [[s1 r] u]. exact H0.
  - destruct (find_idx _ _ _); exact H.
  - exact H.
  - pose proof (serve_Inv sticky s c H). destruct (serve sticky s c). exact H0.
  - fold (scribble_target s h). destruct (scribble_target s h) as [l|] eqn:E; [|exact H].
    cbn [fst]. apply (scribble_facts s l u H), (scribble_target_in s h l E).
  - destruct (max_weight (weights s) <=? 0); [exact H|].
    pose proof (nexts_Inv (mult * rotation (weights s)) s H) as (H0 & _).
    destruct (nexts _ s). exact H0.
  - exact H. Qed.

Lemma Inv_init : Inv init.
Proof. split.
  - constructor.
  - apply iter_ok_reset; [constructor|reflexivity|reflexivity].
  - unfold locs_ok, slocs. cbn. repeat split; try constructor; intros l [].
  - constructor. Qed.

Definition reach (dw : Z) (sticky : bool) (ops : list op) : st := exec (step dw sticky) init ops.

Theorem reach_Inv dw sticky ops : 0 <= dw -> Inv (reach dw sticky ops).
Proof. intros Hdw. unfold reach. apply exec_inv; [|exact Inv_init]. intros s o. apply step_Inv, Hdw. Qed.

(* ------------------------------------------------------------------------------------------ *)
(* C02: the pool refines a finite map key -> weight                                             *)
(* ------------------------------------------------------------------------------------------ *)
Fixpoint alookup (k : Z) (l : list (Z * Z)) : option Z :=
  match l with
  | [] => None
  | (k', w) :: r => if k =? k' then Some w else alookup k r
  end.

(* abstraction: the weight under which a key is a member, if it is *)
Definition abs (s : st) (k : Z) : option Z := alookup k (pool s).

Lemma alookup_kfind k l :
  alookup k l = match kfind k (map fst l) with Some j => Some (nth j (map snd l) 0) | None => None end.
Proof. induction l as [|[k' w] r IH]; cbn; [reflexivity|]. destruct (k =? k'); [reflexivity|].
  rewrite IH. destruct (kfind k (map fst r)); reflexivity. Qed.

Lemma alookup_none k l : alookup k l = None <-> ~ In k (map fst l).
Proof. rewrite alookup_kfind, <- kfind_none. destruct (kfind k (map fst l)); split; intros; congruence. Qed.

Lemma alookup_In k w l : alookup k l = Some w -> In (k, w) l.
Proof. induction l as [|[k' w'] r IH]; cbn; [discriminate|]. destruct (Z.eqb_spec k k').
  - intros E; inv E. left; reflexivity.
  - intros H; right; apply IH, H. Qed.

Lemma In_alookup k w l : NoDup (map fst l) -> In (k, w) l -> alookup k l = Some w.
Proof. induction l as [|[k' w'] r IH]; cbn; intros Hnd; [tauto|]. inv Hnd. intros [E|H].
  - inv E. rewrite Z.eqb_refl. reflexivity.
  - destruct (Z.eqb_spec k k') as [->|_]; [|apply IH; assumption].
    exfalso. apply H1. apply (in_map fst) in H. exact H. Qed.

Lemma alookup_upd k j w l k' : kfind k (map fst l) = Some j ->
  alookup k' (upd_nth j (fun p => (fst p, w)) l) = if k' =? k then Some w else alookup k' l.
Proof. revert j; induction l as [|[kx wx] r IH]; intros j; cbn [map fst kfind]; [discriminate|].
  destruct (Z.eqb_spec k kx) as [->|Hne].
  - intros E; inv E. cbn. destruct (k' =? kx); reflexivity.
  - destruct (kfind k (map fst r)) as [j'|] eqn:Ef; cbn [option_map]; [|discriminate]. intros E; inv E.
    cbn [upd_nth alookup]. rewrite (IH j' eq_refl).
    destruct (Z.eqb_spec k' kx) as [Ek|_]; [|reflexivity].
    destruct (Z.eqb_spec k' k); [congruence|reflexivity]. Qed.

Lemma alookup_snoc k w l k' :
  alookup k' (l ++ [(k, w)]) = match alookup k' l with Some x => Some x | None => if k' =? k then Some w else None end.
Proof. induction l as [|[kx wx] r IH]; cbn; [reflexivity|]. destruct (k' =? kx); [reflexivity|exact IH]. Qed.

Lemma alookup_remove k j l k' : NoDup (map fst l) -> kfind k (map fst l) = Some j ->
  alookup k' (remove_nth j l) = if k' =? k then None else alookup k' l.
Proof. unfold remove_nth. revert j; induction l as [|[kx wx] r IH]; intros j Hnd; cbn [map fst kfind]; [discriminate|].
  inv Hnd. destruct (Z.eqb_spec k kx) as [->|Hne].
  - intros E; inv E. cbn [firstn skipn app alookup]. destruct (Z.eqb_spec k' kx) as [Ek|_]; [|reflexivity].
    rewrite Ek. apply alookup_none. exact H1.
  - destruct (kfind k (map fst r)) as [j'|] eqn:Ef; cbn [option_map]; [|discriminate]. intros E; inv E.
    change (skipn (S (S j')) ((kx, wx) :: r)) with (skipn (S j') r). cbn [firstn app alookup]. rewrite (IH j' H2 eq_refl).
    destruct (Z.eqb_spec k' kx) as [Ek|_]; [|reflexivity].
    destruct (Z.eqb_spec k' k); [congruence|reflexivity]. Qed.

Lemma abs_kfind s k : abs s k = match kfind k (keys s) with Some j => Some (nth j (weights s) 0) | None => None end.
Proof. unfold abs. rewrite alookup_kfind, pool_keys, pool_weights. reflexivity. Qed.

(* pool after each administration call *)
Lemma upsert_existing_pool s j w :
  pool (reset (set_servers s (upd_nth j (set_weight w) (servers s)))) = upd_nth j (fun p => (fst p, w)) (pool s).
Proof. unfold pool, srv_url. cbn [reset set_iter set_servers servers hp]. apply map_upd_nth. reflexivity. Qed.

Lemma upsert_new_pool s u w : Inv s ->
  let s1 := fst (alloc s u) in
  pool (reset (set_servers s1 (servers s1 ++ [{| sloc := nloc s; sw := w |}]))) = pool s ++ [(ukey u, w)].
Proof. intros [_ _ (_ & L2 & _) _] s1. unfold pool, srv_url, s1. cbn [reset set_iter set_servers servers hp alloc fst].
  rewrite map_app. f_equal.
  - apply map_ext_in. intros sv Hsv. rewrite hget_hset_other; [reflexivity|].
    specialize (L2 (sloc sv) (in_map _ _ _ Hsv)). lia.
  - cbn [map sloc sw]. rewrite hget_hset_same. reflexivity. Qed.

Lemma remove_pool s j : pool (reset (set_servers s (remove_nth j (servers s)))) = remove_nth j (pool s).
Proof. unfold pool, srv_url. cbn [reset set_iter set_servers servers hp]. apply map_remove_nth. Qed.

(* the specification: a finite map from keys to weights, with insert / update / delete *)
Definition smap := Z -> option Z.
Definition sp_empty : smap := fun _ => None.
Definition sp_set (m : smap) (k : Z) (v : option Z) : smap := fun k' => if k' =? k then v else m k'.

Definition sp_upsert (dw : Z) (m : smap) (k : Z) (wo : option Z) : smap * bool :=
  match m k with
  | Some _ =>
      match wo with
      | Some w => if w <? 0 then (m, false) else (sp_set m k (Some w), true)   (* explicit weight replaces *)
      | None => (m, true)                                                      (* absent leaves unchanged *)
      end
  | None =>
      let w := match wo with Some w => w | None => 0 end in
      if w <? 0 then (m, false) else (sp_set m k (Some (if w =? 0 then dw else w)), true)
  end.

Definition sp_remove (m : smap) (k : Z) : smap * bool :=
  match m k with
  | Some _ => (sp_set m k None, true)
  | None => (m, false)                                                         (* unknown server: error, nothing changes *)
  end.

Definition sp_step (dw : Z) (m : smap) (o : op) : smap * bool :=
  match o with
  | OUpsert u wo => sp_upsert dw m (ukey u) wo
  | ORemove u => sp_remove m (ukey u)
  | _ => (m, true)                                                             (* requests and downstream writes never change it *)
  end.

Fixpoint sp_run (dw : Z) (m : smap) (ops : list op) : smap :=
  match ops with
  | [] => m
  | o :: r => sp_run dw (fst (sp_step dw m o)) r
  end.

Lemma sp_step_ext dw m m' o : (forall k, m k = m' k) ->
  (forall k, fst (sp_step dw m o) k = fst (sp_step dw m' o) k) /\ snd (sp_step dw m o) = snd (sp_step dw m' o).
Proof. intros E. destruct o as [u wo|u| |u| |c|h u|mult|]; cbn [sp_step fst snd]; auto.
  - unfold sp_upsert. rewrite <- (E (ukey u)). destruct (m (ukey u)).
    + destruct wo as [w|]; [destruct (w <? 0)|]; cbn [fst snd]; split; auto. intros k. unfold sp_set. rewrite E. reflexivity.
    + destruct (_ <? 0); cbn [fst snd]; split; auto. intros k. unfold sp_set. rewrite E. reflexivity.
  - unfold sp_remove. rewrite <- (E (ukey u)). destruct (m (ukey u)); cbn [fst snd]; split; auto.
    intros k. unfold sp_set. rewrite E. reflexivity. Qed.

Lemma sp_run_ext dw ops : forall m m', (forall k, m k = m' k) -> forall k, sp_run dw m ops k = sp_run dw m' ops k.
Proof. induction ops as [|o r IH]; intros m m' E k; cbn [sp_run]; [apply E|].
  apply IH. apply (sp_step_ext dw m m' o E). Qed.

(* model administration calls against the map *)
Lemma upsert_refines dw s u wo : Inv s ->
  (forall k, abs (fst (upsert dw s u wo)) k = fst (sp_upsert dw (abs s) (ukey u) wo) k) /\
  snd (upsert dw s u wo) = snd (sp_upsert dw (abs s) (ukey u) wo) /\
  (snd (upsert dw s u wo) = false -> fst (upsert dw s u wo) = s).
Proof. intros H. unfold upsert, sp_upsert. rewrite find_idx_spec, (abs_kfind s (ukey u)).
  destruct (kfind (ukey u) (keys s)) as [j|] eqn:Ef.
  - destruct wo as [w|].
    + destruct (w <? 0); cbn [fst snd]; [auto|]. split; [|split; [reflexivity|discriminate]].
      intros k. unfold abs. rewrite upsert_existing_pool. rewrite <- pool_keys in Ef.
      rewrite (alookup_upd _ _ _ _ _ Ef). reflexivity.
    + cbn [fst snd]. split; [|split; [reflexivity|discriminate]]. intros k. reflexivity.
  - destruct (_ <? 0); cbn [fst snd alloc]; [auto|]. split; [|split; [reflexivity|discriminate]].
    intros k. unfold abs at 1. rewrite (upsert_new_pool s u _ H). rewrite alookup_snoc. unfold sp_set. fold (abs s k).
    destruct (Z.eqb_spec k (ukey u)) as [->|Hne].
    + rewrite (abs_kfind s (ukey u)), Ef. reflexivity.
    + destruct (abs s k); reflexivity. Qed.

Lemma remove_refines s u : Inv s ->
  (forall k, abs (fst (remove s u)) k = fst (sp_remove (abs s) (ukey u)) k) /\
  snd (remove s u) = snd (sp_remove (abs s) (ukey u)) /\
  (snd (remove s u) = false -> fst (remove s u) = s).
Proof. intros H. unfold remove, sp_remove. rewrite find_idx_spec, (abs_kfind s (ukey u)).
  destruct (kfind (ukey u) (keys s)) as [j|] eqn:Ef; cbn [fst snd]; [|auto].
  split; [|split; [reflexivity|discriminate]].
  intros k. unfold abs. rewrite remove_pool. rewrite <- pool_keys in Ef.
  rewrite (alookup_remove _ _ _ _ ltac:(rewrite pool_keys; apply (inv_keys s H)) Ef). reflexivity. Qed.

(* operations other than Upsert / Remove leave the pool untouched *)
Lemma next_pool s : pool (fst (next s)) = pool s /\ dump (fst (next s)) = dump s.
Proof. destruct (next_weights s) as (_ & Es & Eh & _). split; [apply pool_ext|apply dump_ext]; auto; intros; rewrite Eh; reflexivity. Qed.

Lemma next_server_pool s : Inv s -> pool (fst (fst (next_server s))) = pool s.
Proof. intros H. rewrite next_server_eq. pose proof (next_Inv s H) as H1. pose proof (next_pool s) as [Hp _].
  destruct (next s) as [s1 r]. cbn [fst] in *. destruct r; cbn [fst]; try exact Hp.
  destruct (hand_copy_facts s1 (srv_url s1 (nth i (servers s1) nosrv)) H1) as (_ & _ & _ & _ & _ & E & _).
  rewrite E. exact Hp. Qed.

Lemma serve_pool sticky s c : Inv s -> pool (fst (serve sticky s c)) = pool s.
Proof. intros H. rewrite serve_eq.
  destruct (if sticky then match c with Some k => find_idx (hp s) (k, -1) (servers s) | None => None end else None) as [j|].
  - destruct (hand_copy_facts s (srv_url s (nth j (servers s) nosrv)) H) as (_ & _ & _ & _ & _ & E & _). exact E.
  - pose proof (next_server_pool s H) as E. destruct (next_server s) as [[s1 r] u]. cbn [fst] in E. destruct r; exact E. Qed.

Lemma nexts_pool n s : Inv s -> pool (fst (nexts n s)) = pool s.
Proof. intros H. destruct (nexts_Inv n s H) as (_ & _ & Es & Eh & _). apply pool_ext; [exact Es|]. intros; rewrite Eh; reflexivity. Qed.

Lemma step_pool_other dw sticky s o : Inv s ->
  match o with OUpsert _ _ | ORemove _ => True | _ => pool (fst (step dw sticky s o)) = pool s end.
Proof. intros H. destruct o as [u wo|u| |u| |c|h u|mult|]; cbn [step]; auto.
  - pose proof (next_server_pool s H). destruct (next_server s) as [[s1 r] u]. exact H0.
  - destruct (find_idx _ _ _); reflexivity.
  - pose proof (serve_pool sticky s c H). destruct (serve sticky s c). exact H0.
  - fold (scribble_target s h). destruct (scribble_target s h) as [l|] eqn:E; [|reflexivity].
    cbn [fst]. apply (scribble_facts s l u H), (scribble_target_in s h l E).
  - destruct (max_weight (weights s) <=? 0); [reflexivity|].
    pose proof (nexts_pool (mult * rotation (weights s)) s H). destruct (nexts _ s). exact H0. Qed.

Lemma step_refines dw sticky s o : Inv s ->
  forall k, abs (fst (step dw sticky s o)) k = fst (sp_step dw (abs s) o) k.
Proof. intros H k. pose proof (step_pool_other dw sticky s o H) as Ho.
  destruct o as [u wo|u| |u| |c|h u|mult|]; try (cbn [sp_step fst]; unfold abs; rewrite Ho; reflexivity).
  - cbn [step sp_step]. pose proof (upsert_refines dw s u wo H) as (E & _). destruct (upsert dw s u wo). apply E.
  - cbn [step sp_step]. pose proof (remove_refines s u H) as (E & _). destruct (remove s u). apply E. Qed.

(* C02_refines: after every history the pool is the map built by the same calls *)
Theorem refines dw sticky ops : 0 <= dw -> forall k, abs (reach dw sticky ops) k = sp_run dw sp_empty ops k.
Proof. intros Hdw. unfold reach.
  assert (G : forall ops s m, Inv s -> (forall k, abs s k = m k) ->
            forall k, abs (exec (step dw sticky) s ops) k = sp_run dw m ops k).
  { induction ops0 as [|o r IH]; intros s m Hs E k; cbn [exec sp_run]; [apply E|].
    apply IH; [apply step_Inv; assumption|]. intros k'. rewrite step_refines by assumption.
    apply (sp_step_ext dw (abs s) m o E). }
  apply G; [exact Inv_init|reflexivity]. Qed.

(* the result of an administration call (first observable) is the map's verdict; a refused call changes nothing *)
Theorem admin_result dw sticky s o : Inv s ->
  match o with
  | OUpsert _ _ | ORemove _ =>
      hd 0 (snd (step dw sticky s o)) = zbool (snd (sp_step dw (abs s) o)) /\
      (snd (sp_step dw (abs s) o) = false -> fst (step dw sticky s o) = s)
  | _ => True
  end.
Proof. intros H. destruct o as [u wo|u| |u| |c|h u|mult|]; auto; cbn [step sp_step].
  - pose proof (upsert_refines dw s u wo H) as (_ & E1 & E2). destruct (upsert dw s u wo) as [s1 ok]. cbn [fst snd hd] in *.
    split; [rewrite E1; reflexivity|]. intros Hf. apply E2. rewrite E1. exact Hf.
  - pose proof (remove_refines s u H) as (_ & E1 & E2). destruct (remove s u) as [s1 ok]. cbn [fst snd hd] in *.
    split; [rewrite E1; reflexivity|]. intros Hf. apply E2. rewrite E1. exact Hf. Qed.

(* ------------------------------------------------------------------------------------------ *)
(* C01 corollaries on the model state                                                           *)
(* ------------------------------------------------------------------------------------------ *)
Lemma Inv_slot_pre s : Inv s -> somepos (weights s) -> slot_pre (weights s) (idx s) (cw s).
Proof. intros H Hp. exact (proj1 (inv_iter s H) Hp). Qed.

Lemma count_pick_app i a b : count_pick i (a ++ b) = (count_pick i a + count_pick i b)%nat.
Proof. unfold count_pick. rewrite filter_app, app_length. reflexivity. Qed.

Lemma count_pick_pos_In i rs : (0 < count_pick i rs)%nat -> In (Picked i) rs.
Proof. unfold count_pick. induction rs as [|r rs IH]; cbn [filter length]; [lia|].
  destruct r as [j| | |]; try (intros H; right; apply IH, H).
  destruct (Nat.eqb_spec j i) as [->|_]; [intros _; left; reflexivity|intros H; right; apply IH, H]. Qed.

(* every selection has positive weight while some weight is positive: zero-weight servers are never chosen *)
Lemma app_eq_len {A} (a c b d : list A) : length a = length c -> a ++ b = c ++ d -> a = c /\ b = d.
Proof. revert c; induction a as [|x a IH]; intros [|y c] Hl E; cbn in *; try lia; [auto|].
  inv E. destruct (IH c ltac:(lia) H1) as [-> ->]. auto. Qed.

Lemma picks_good s n : Inv s -> somepos (weights s) -> Forall (good_pick (weights s)) (snd (nexts n s)).
Proof. intros H Hp.
  destruct (window_state s n (inv_nonneg s H) Hp (Inv_slot_pre s H Hp)) as (before & win & E & Hb & _ & _ & Hall).
  destruct (nexts_app n (rotation (weights s)) s) as [Ea _]. rewrite Ea in E.
  apply app_eq_len in E; [|rewrite nexts_length; lia]. destruct E as [E _].
  rewrite E. apply Forall_app in Hall. tauto. Qed.

Lemma zero_never s n i : Inv s -> somepos (weights s) -> nth i (weights s) 0 = 0 -> ~ In (Picked i) (snd (nexts n s)).
Proof. intros H Hp Hz Hin. destruct (proj1 (Forall_forall _ _) (picks_good s n H Hp) _ Hin) as (j & E & _ & Hpos).
  inv E. lia. Qed.

(* one full rotation from any state *)
Lemma rotation_counts s : Inv s -> somepos (weights s) ->
  forall i, (i < length (weights s))%nat ->
    Z.of_nat (count_pick i (snd (nexts (rotation (weights s)) s))) = nth i (weights s) 0 / weight_gcd (weights s).
Proof. intros H Hp i Hi.
  destruct (window_state s 0 (inv_nonneg s H) Hp (Inv_slot_pre s H Hp)) as (before & win & E & Hb & _ & Hc & _).
  destruct before; [|discriminate]. cbn [plus app] in E. rewrite E. apply Hc, Hi. Qed.

(* after m rotations server i has been chosen exactly m * w_i / g times: its share is w_i / sum w *)
Lemma share s m : Inv s -> somepos (weights s) ->
  forall i, (i < length (weights s))%nat ->
    Z.of_nat (count_pick i (snd (nexts (m * rotation (weights s)) s))) =
    Z.of_nat m * (nth i (weights s) 0 / weight_gcd (weights s)).
Proof. revert s; induction m as [|m IH]; intros s H Hp i Hi; [cbn; lia|].
  cbn [Nat.mul]. destruct (nexts_app (rotation (weights s)) (m * rotation (weights s)) s) as [Ea _]. rewrite Ea.
  rewrite count_pick_app, Nat2Z.inj_add, (rotation_counts s H Hp i Hi).
  destruct (nexts_Inv (rotation (weights s)) s H) as (H' & Ew & _).
  specialize (IH (fst (nexts (rotation (weights s)) s)) H'). rewrite Ew in IH. rewrite (IH Hp i Hi). lia. Qed.

Lemma quotient_pos ws i : nonneg ws -> somepos ws -> (i < length ws)%nat -> 0 < nth i ws 0 -> 0 < nth i ws 0 / weight_gcd ws.
Proof. intros Hn Hp Hi Hw. destruct (dis_ws_div ws Hn Hp i Hi) as (q & Hq & E). pose proof (dis_g_pos ws Hn Hp).
  rewrite E in *. rewrite Z.mul_comm, Z.div_mul by lia. nia. Qed.

(* a server of positive weight is chosen within one rotation, from any state *)
Lemma within_rotation s i : Inv s -> somepos (weights s) -> (i < length (weights s))%nat -> 0 < nth i (weights s) 0 ->
  In (Picked i) (snd (nexts (rotation (weights s)) s)).
Proof. intros H Hp Hi Hw. apply count_pick_pos_In.
  pose proof (rotation_counts s H Hp i Hi). pose proof (quotient_pos _ i (inv_nonneg s H) Hp Hi Hw). lia. Qed.

(* all weights zero: every call errs (and leaves the iterator reset) *)
Lemma all_zero_error s : Inv s -> weights s <> [] -> allzero (weights s) -> next s = (set_iter s (-1) 0, AllZero).
Proof. intros H Hne Hz. destruct (proj2 (inv_iter s H) Hz Hne) as [Hc Hi]. exact (next_allzero s Hne Hz Hc Hi). Qed.

(* every accepted administration call resets the iterator *)
Lemma upsert_resets dw s u wo : snd (upsert dw s u wo) = true ->
  idx (fst (upsert dw s u wo)) = -1 /\ cw (fst (upsert dw s u wo)) = 0.
Proof. unfold upsert. destruct (find_idx _ _ _).
  - destruct wo as [w|]; [destruct (w <? 0)|]; cbn; auto; discriminate.
  - destruct (_ <? 0); cbn; auto; discriminate. Qed.

Lemma remove_resets s u : snd (remove s u) = true -> idx (fst (remove s u)) = -1 /\ cw (fst (remove s u)) = 0.
Proof. unfold remove. destruct (find_idx _ _ _); cbn; auto; discriminate. Qed.

Definition accepted_change (dw : Z) (sticky : bool) (s : st) (o : op) : Prop :=
  match o with
  | OUpsert _ _ | ORemove _ => hd 0 (snd (step dw sticky s o)) = 1
  | _ => False
  end.

Lemma accepted_resets dw sticky s o : accepted_change dw sticky s o ->
  idx (fst (step dw sticky s o)) = -1 /\ cw (fst (step dw sticky s o)) = 0.
Proof. destruct o as [u wo|u| |u| |c|h u|mult|]; cbn [accepted_change]; try tauto; cbn [step].
  - pose proof (upsert_resets dw s u wo). destruct (upsert dw s u wo) as [s1 ok]. cbn [fst snd hd] in *.
    destruct ok; [auto|discriminate].
  - pose proof (remove_resets s u). destruct (remove s u) as [s1 ok]. cbn [fst snd hd] in *.
    destruct ok; [auto|discriminate]. Qed.

(* ------------------------------------------------------------------------------------------ *)
(* C02: selections are members; requests on an empty / all-zero pool; the frame property        *)
(* ------------------------------------------------------------------------------------------ *)
Lemma next_picked_range s i : Inv s -> snd (next s) = Picked i ->
  (i < length (servers s))%nat /\ 0 < nth i (weights s) 0.
Proof. intros H E. pose proof (inv_nonneg s H) as Hn. destruct (inv_iter s H) as [Hsp Haz].
  destruct (nonneg_split _ Hn) as [Hz|Hp].
  - destruct (list_eq_dec Z.eq_dec (weights s) []) as [Hemp|Hne].
    + unfold next in E. destruct (servers s) eqn:Es; [discriminate|]. unfold weights in Hemp. rewrite Es in Hemp. discriminate.
    + destruct (Haz Hz Hne) as [Hc Hi]. rewrite (next_allzero s Hne Hz Hc Hi) in E. discriminate.
  - destruct (next_somepos s Hn Hp (Hsp Hp)) as (j & c & E' & _ & Hr & Hpos). rewrite E' in E. inv E.
    rewrite <- weights_length. split; [lia|auto]. Qed.

Lemma nth_keys s i : (i < length (servers s))%nat -> nth i (keys s) 0 = ukey (srv_url s (nth i (servers s) nosrv)).
Proof. intros Hi. unfold keys. rewrite (nth_indep _ 0 (ukey (srv_url s nosrv))) by (rewrite map_length; exact Hi).
  apply (map_nth (fun sv => ukey (srv_url s sv))). Qed.

Lemma abs_nth s i : Inv s -> (i < length (servers s))%nat -> abs s (nth i (keys s) 0) = Some (nth i (weights s) 0).
Proof. intros H Hi. rewrite abs_kfind, kfind_nth; [reflexivity|apply (inv_keys s H)|rewrite keys_length; exact Hi]. Qed.

Lemma srv_url_ext s s' sv : hp s' = hp s -> srv_url s' sv = srv_url s sv.
Proof. unfold srv_url. intros ->. reflexivity. Qed.

(* NextServer returns (a copy of) a current member; its weight is positive unless every weight is zero *)
Lemma next_server_member s s1 i u : Inv s -> next_server s = (s1, Picked i, u) ->
  u = srv_url s (nth i (servers s) nosrv) /\ (i < length (servers s))%nat /\
  abs s (ukey u) = Some (nth i (weights s) 0) /\ 0 < nth i (weights s) 0 /\
  exists l, handed s1 = l :: handed s /\ hget (hp s1) l = u /\ ~ In l (slocs s1).
Proof. intros H E. rewrite next_server_eq in E.
  pose proof (next_picked_range s i H) as Hr. pose proof (next_Inv s H) as H1.
  destruct (next_weights s) as (_ & Es & Eh & En & Ehd).
  destruct (next s) as [s0 r]. cbn [fst snd] in *. destruct r; inv E.
  destruct (Hr eq_refl) as [Hi Hpos]. rewrite Es, (srv_url_ext s s0 _ Eh).
  split; [reflexivity|]. split; [exact Hi|]. split; [rewrite <- nth_keys by exact Hi; apply abs_nth; assumption|].
  split; [exact Hpos|].
  destruct (hand_copy_facts s0 (srv_url s (nth i (servers s) nosrv)) H1) as (H2 & Es2 & _ & _ & _ & _ & _ & Eh2 & Eg).
  exists (nloc s0). rewrite Eh2, Ehd. split; [reflexivity|]. split; [exact Eg|].
  destruct (inv_locs _ H2) as (_ & _ & _ & L4). intros Hin. apply (L4 _ Hin). rewrite Eh2. left. reflexivity. Qed.

(* ServeHTTP: what the downstream handler sees is a fresh copy of a current member *)
Lemma serve_member sticky s c : Inv s ->
  let s1 := fst (serve sticky s c) in let out := snd (serve sticky s c) in
  nth 0 out 0 = 200 ->
  exists w l, abs s (nth 1 out 0) = Some w /\
    (nth 3 out 0 = 0 -> 0 < w) /\
    handed s1 = l :: handed s /\ ukey (hget (hp s1) l) = nth 1 out 0 /\ ~ In l (slocs s1).
Proof. intros H. rewrite serve_eq.
  destruct (if sticky then match c with Some k => find_idx (hp s) (k, -1) (servers s) | None => None end else None) as [j|] eqn:Est.
  - cbn [fst snd nth]. intros _.
    assert (Hj : (j < length (servers s))%nat).
    { destruct sticky; [|discriminate]. destruct c as [k|]; [|discriminate]. rewrite find_idx_spec in Est.
      eapply kfind_lt, Est. }
    destruct (hand_copy_facts s (srv_url s (nth j (servers s) nosrv)) H) as (H2 & _ & _ & _ & _ & _ & _ & Eh2 & Eg).
    exists (nth j (weights s) 0), (nloc s). rewrite <- nth_keys by exact Hj.
    split; [apply abs_nth; assumption|]. split; [discriminate|]. split; [exact Eh2|]. split; [rewrite Eg, nth_keys by exact Hj; reflexivity|].
    destruct (inv_locs _ H2) as (_ & _ & _ & L4). intros Hin. apply (L4 _ Hin). rewrite Eh2. left. reflexivity.
  - destruct (next_server s) as [[s1 r] u] eqn:En. destruct r; cbn [fst snd nth]; try discriminate. intros _.
    destruct (next_server_member s s1 i u H En) as (_ & _ & Ha & Hpos & l & Hh & Hg & Hl).
    exists (nth i (weights s) 0), l. rewrite Hg. auto 10. Qed.

(* an empty pool: 500, nothing forwarded, nothing changed *)
Lemma serve_empty sticky s c : servers s = [] -> serve sticky s c = (s, [500; -1; -1; 0]).
Proof. intros E. rewrite serve_eq, next_server_eq, next_empty by exact E. rewrite E.
  destruct sticky; [destruct c|]; reflexivity. Qed.

(* every weight zero, request not pinned by a cookie: 500, nothing forwarded *)
Lemma serve_all_zero sticky s c : Inv s -> weights s <> [] -> allzero (weights s) ->
  (sticky = false \/ c = None \/ exists k, c = Some k /\ abs s k = None) ->
  snd (serve sticky s c) = [500; -1; -1; 0] /\ handed (fst (serve sticky s c)) = handed s.
Proof. intros H Hne Hz Hns. rewrite serve_eq.
  assert (Est : (if sticky then match c with Some k => find_idx (hp s) (k, -1) (servers s) | None => None end else None) = None).
  { destruct Hns as [->|[->|(k & -> & Hk)]]; [reflexivity|destruct sticky; reflexivity|].
    destruct sticky; [|reflexivity]. rewrite find_idx_spec. cbn [ukey fst]. rewrite abs_kfind in Hk.
    destruct (kfind k (keys s)); [discriminate|reflexivity]. }
  rewrite Est, next_server_eq, (all_zero_error s H Hne Hz). cbn. auto. Qed.

(* the frame property: whatever a holder writes through a URL it was handed, the pool does not change *)
Lemma scribble_frame dw sticky s h u : Inv s ->
  let s' := fst (step dw sticky s (OScribble h u)) in
  pool s' = pool s /\ servers s' = servers s /\ idx s' = idx s /\ cw s' = cw s /\ dump s' = dump s /\
  match scribble_target s h with
  | Some l => hget (hp s') l = u /\ ~ In l (slocs s)      (* the write did happen, on a location outside the pool *)
  | None => s' = s
  end.
Proof. intros H. cbn [step]. fold (scribble_target s h). destruct (scribble_target s h) as [l|] eqn:E; cbn [fst]; [|auto 10].
  pose proof (scribble_target_in s h l E) as Hl.
  destruct (scribble_facts s l u H Hl) as (_ & _ & Ep & Ed).
  repeat split; try assumption; try reflexivity.
  - cbn. apply hget_hset_same.
  - destruct (inv_locs s H) as (_ & _ & _ & L4). intros Hin. exact (L4 l Hin Hl). Qed.

(* spec-level facts used for "a removed server is never selected again until it is re-added" *)
Lemma sp_run_app dw m a b : sp_run dw m (a ++ b) = sp_run dw (sp_run dw m a) b.
Proof. revert m; induction a as [|o a IH]; intros m; cbn [app sp_run]; [reflexivity|apply IH]. Qed.

Lemma sp_absent_stays dw ops : forall m k, m k = None ->
  (forall u wo, In (OUpsert u wo) ops -> ukey u <> k) -> sp_run dw m ops k = None.
Proof. induction ops as [|o r IH]; intros m k Hm Hno; cbn [sp_run]; [exact Hm|].
  apply IH; [|intros u wo Hin; apply (Hno u wo); right; exact Hin].
  destruct o as [u wo|u| |u| |c|h u|mult|]; cbn [sp_step fst]; try exact Hm.
  - specialize (Hno u wo (or_introl eq_refl)). unfold sp_upsert.
    destruct (m (ukey u)); [destruct wo as [w|]; [destruct (w <? 0)|]|destruct (_ <? 0)]; cbn [fst]; try exact Hm;
      unfold sp_set; destruct (Z.eqb_spec k (ukey u)); congruence.
  - unfold sp_remove. destruct (m (ukey u)); cbn [fst]; [|exact Hm]. unfold sp_set. destruct (k =? ukey u); [reflexivity|exact Hm]. Qed.

Lemma sp_remove_absent m k : fst (sp_remove m k) k = None.
Proof. unfold sp_remove. destruct (m k) eqn:E; cbn [fst]; [unfold sp_set; rewrite Z.eqb_refl; reflexivity|exact E]. Qed.

Theorem removed_stays_out dw sticky ops1 u ops2 : 0 <= dw ->
  (forall u' wo, In (OUpsert u' wo) ops2 -> ukey u' <> ukey u) ->
  abs (reach dw sticky (ops1 ++ ORemove u :: ops2)) (ukey u) = None.
Proof. intros Hdw Hno. rewrite refines by exact Hdw. rewrite sp_run_app. cbn [sp_run sp_step].
  apply sp_absent_stays; [apply sp_remove_absent|exact Hno]. Qed.
