(* Spilling: the response writer of an attempt owns a named temporary file exactly when the bytes it accepted
   exceed the in-memory threshold; hence the number of named files present when the protected handler returns. *)
From Oxy Require Import Base.Prelude Model.Multibuf Model.Buffer
  Proofs.BufferProofsA Proofs.BufferProofsB Proofs.BufferProofsC Proofs.BufferProofsD.
Open Scope Z_scope.

(* the writer is in its File state exactly when what it accepted is longer than memBytes *)
Definition spill_iff (w : writer) (data : bytes) : Prop := w_st w = WFile <-> w_memB w < blen data.

Lemma spill_new mem max : 0 <= mem -> spill_iff (w_new mem max) [].
Proof. intros H. unfold spill_iff, w_new, eff_mem; cbn. split; [discriminate|].
  destruct (mem =? 0) eqn:E; unfold DefaultMemBytes; lia. Qed.

Lemma w_write_spill base w p fs data : winv base w fs data -> spill_iff w data ->
  (0 <? w_maxB w) && (w_maxB w <? blen p + blen data) = false ->
  spill_iff (fst (fst (w_write w p fs))) (data ++ p).
Proof. intros [Hwf Hd Ht Hs] Hsp Hov. unfold spill_iff in *. unfold w_write. rewrite Ht, Hov.
  pose proof (blen_nonneg p) as Hp. pose proof (blen_nonneg data) as Hdn. rewrite blen_app.
  assert (Hcase : w_st w <> WFile -> blen data <= w_memB w).
  { intros Hnf. destruct (Z.lt_ge_cases (w_memB w) (blen data)) as [H|H]; [apply Hsp in H; contradiction|lia]. }
  Ltac spill_mem Hcase Ht :=
    let Hle := fresh "Hle" in
    assert (Hle := Hcase ltac:(congruence)); unfold writeToMem; rewrite Ht;
    repeat match goal with
           | |- context [?x <=? 0] => destruct (Z.leb_spec x 0)
           | |- context [?x <? ?y] => destruct (Z.ltb_spec x y)
           | |- context [fs_create ?f] => destruct (fs_create f)
           end; cbn [fst snd w_st w_memB]; (split; [try discriminate; try lia|try reflexivity; try lia]).
  destruct (w_st w) eqn:Est.
  - spill_mem Hcase Ht.
  - spill_mem Hcase Ht.
  - cbn [fst snd w_st w_memB]. split; [intros _|reflexivity].
    assert (w_memB w < blen data) by (apply Hsp; reflexivity). lia.
  - destruct Hs.
Qed.

(* along the events of one invocation *)
Lemma ev_step_spill base maxR rq s a e :
  brel base maxR (h_bw s) (h_fs s) a -> spill_iff (b_w (h_bw s)) (a_data a) ->
  spill_iff (b_w (h_bw (ev_step rq s e))) (a_data (abs_step maxR a e)).
Proof. intros B Hsp. destruct e; cbn [ev_step abs_step]; try exact Hsp.
  - unfold bw_write.
    pose proof (w_write_spill base (b_w (h_bw s)) (gen_body id n) (h_fs s) (a_data a) (br_w _ _ _ _ _ B) Hsp) as W.
    pose proof (w_write_spec base (b_w (h_bw s)) (gen_body id n) (h_fs s) (a_data a) (br_w _ _ _ _ _ B)) as V.
    cbn zeta in V. rewrite (br_max _ _ _ _ _ B) in W, V.
    destruct (w_write (b_w (h_bw s)) (gen_body id n) (h_fs s)) as [[w' fs'] ok] eqn:E. cbn [fst snd] in *.
    destruct ((0 <? maxR) && (maxR <? blen (gen_body id n) + blen (a_data a))) eqn:Eo; cbn [h_bw b_w a_data].
    + destruct V as (_ & V & _). specialize (V eq_refl). inversion V; subst. exact Hsp.
    + apply W; reflexivity.
  - destruct (h_body s) as [r|]; [|exact Hsp]. destruct (mr_read k r) as [d r']. exact Hsp.
Qed.

Lemma run_events_spill base maxR rq evs : forall s a,
  brel base maxR (h_bw s) (h_fs s) a -> spill_iff (b_w (h_bw s)) (a_data a) ->
  spill_iff (b_w (h_bw (run_events rq s evs))) (a_data (bw_run maxR a evs)).
Proof. induction evs as [|e r IH]; intros s a B H; cbn [run_events bw_run]; [exact H|].
  rewrite (br_hij _ _ _ _ _ B). destruct (a_hij a); [exact H|].
  apply IH; [apply brel_step, B|eapply ev_step_spill; eassumption]. Qed.

Lemma w_write_memB w p fs : w_memB (fst (fst (w_write w p fs))) = w_memB w.
Proof. exact (proj1 (w_write_opts w p fs)). Qed.

Lemma ev_step_memB rq s e : w_memB (b_w (h_bw (ev_step rq s e))) = w_memB (b_w (h_bw s)).
Proof. destruct e; cbn [ev_step set_bw h_bw b_w]; try reflexivity.
  - unfold bw_write. pose proof (w_write_memB (b_w (h_bw s)) (gen_body id n) (h_fs s)) as H.
    destruct (w_write (b_w (h_bw s)) (gen_body id n) (h_fs s)) as [[w' fs'] ok]. exact H.
  - destruct (h_body s) as [r|]; [|reflexivity]. destruct (mr_read k r); reflexivity.
Qed.

Lemma run_events_memB rq evs : forall s, w_memB (b_w (h_bw (run_events rq s evs))) = w_memB (b_w (h_bw s)).
Proof. induction evs as [|e r IH]; intros s; cbn [run_events]; [reflexivity|].
  destruct (b_hij (h_bw s)); [reflexivity|]. rewrite IH. apply ev_step_memB. Qed.

(* the file system component that one_attempt hands on is the one at the handler's return *)
Lemma one_attempt_fs c rq o k evs st :
  l_fs (snd (one_attempt c rq o k evs st)) =
  h_fs (run_events o {| h_bw := {| b_code := 0; b_hdr := []; b_wrote := false; b_werr := false; b_hij := false;
                                     b_w := w_new (memResp c) (maxResp c) |};
                        h_body := l_body st; h_heap := l_heap st; h_fs := l_fs st; h_read := [] |} evs).
Proof. unfold one_attempt. cbv zeta.
  repeat match goal with
         | |- context [if ?x then _ else _] => destruct x
         | |- context [match ?x with _ => _ end] => destruct x
         end; reflexivity. Qed.

(* named files when the handler of an attempt returns: those present before, plus one exactly when the bytes the
   response writer accepted exceed the effective in-memory threshold *)
Lemma one_attempt_names c rq o k evs st : fs_wf (l_fs st) -> 0 <= memResp c ->
  exists extra, fnames (l_fs (snd (one_attempt c rq o k evs st))) = extra ++ fnames (l_fs st) /\
    length extra = if eff_mem (memResp c) <? blen (a_data (attempt_abs c evs)) then 1%nat else 0%nat.
Proof. intros Hwf Hm. rewrite one_attempt_fs.
  set (b0 := {| b_code := 0; b_hdr := []; b_wrote := false; b_werr := false; b_hij := false;
                b_w := w_new (memResp c) (maxResp c) |}).
  set (s0 := {| h_bw := b0; h_body := l_body st; h_heap := l_heap st; h_fs := l_fs st; h_read := [] |}).
  set (base := fnames (l_fs st)).
  assert (B0 : brel base (maxResp c) (h_bw s0) (h_fs s0) abs0).
  { constructor; cbn; auto; try discriminate. apply winv_new; auto. }
  pose proof (run_events_abs base (maxResp c) o evs s0 abs0 B0) as B.
  pose proof (run_events_spill base (maxResp c) o evs s0 abs0 B0 (spill_new _ _ Hm)) as S.
  pose proof (run_events_memB o evs s0) as M. cbn [s0 h_bw b0 b_w w_new w_memB] in M.
  fold (attempt_abs c evs) in B, S. set (a := attempt_abs c evs) in *.
  set (s := run_events o s0 evs) in *.
  unfold spill_iff in S. rewrite M in S.
  destruct (br_w _ _ _ _ _ B) as [_ _ _ Hst].
  destruct (Z.ltb_spec (eff_mem (memResp c)) (blen (a_data a))) as [Hl|Hl].
  - apply S in Hl. rewrite Hl in Hst. destruct Hst as (f & _ & Hn & _). exists [f]. split; [exact Hn|reflexivity].
  - exists []. split; [|reflexivity]. cbn [app].
    destruct (w_st (b_w (h_bw s))) eqn:E.
    + tauto.
    + tauto.
    + exfalso. assert (eff_mem (memResp c) < blen (a_data a)) by (apply S; reflexivity). lia.
    + destruct Hst.
Qed.

(* multibuf.New never leaves a NAME behind: a spilled request body lives in an unlinked file *)
Lemma mb_new_names mem max input fs : fs_wf fs -> fnames (fst (mb_new mem max input fs)) = fnames fs.
Proof. intros H. exact (proj2 (mb_new_fs mem max input fs H)). Qed.

(* ------------------------------------------------------------------------------------------------ *)
(* the whole exchange: named files present at each return of the handler                            *)
(* ------------------------------------------------------------------------------------------------ *)
Definition spills (c : cfg) (evs : list event) : bool := eff_mem (memResp c) <? blen (a_data (attempt_abs c evs)).

(* what the counts must be: before the first attempt n0 names; each attempt adds one exactly when its response
   spilled; nothing is released before ServeHTTP returns (the deferred calls run at the end) *)
Fixpoint tmps_spec (c : cfg) (m : Z) (scripts : list (list event)) (fuel : nat) (k : Z) (n0 : nat) : list Z :=
  match fuel with
  | O => []
  | S f =>
      let evs := script_of scripts k in
      let n1 := (n0 + if spills c evs then 1 else 0)%nat in
      match attempt_outcome c m k evs with
      | Done _ => [Z.of_nat n1]
      | Again => Z.of_nat n1 :: tmps_spec c m scripts f (k + 1) n1
      end
  end.

Lemma attempts_tmps_spec c rq hp0 body names0 scripts :
  (q_url rq < length hp0)%nat -> (q_hdr rq < length hp0)%nat -> 0 <= memResp c ->
  forall fuel k st o, pre_inv rq hp0 body names0 st o ->
  attempts_tmps fuel c rq o (blen body) scripts k st =
  tmps_spec c (q_method rq) scripts fuel k (length (fnames (l_fs st))).
Proof. intros Hu Hh Hm. induction fuel as [|f IH]; intros k st o Hpre; cbn [attempts_tmps tmps_spec]; [reflexivity|].
  destruct (one_attempt_spec c rq hp0 body names0 st o k (script_of scripts k) Hpre) as (A1 & _ & A3).
  destruct (one_attempt_names c rq o k (script_of scripts k) st (pi_wf _ _ _ _ (pr_post _ _ _ _ _ _ Hpre)) Hm)
    as (extra & N1 & N2).
  destruct (one_attempt c rq o k (script_of scripts k) st) as [oc st'] eqn:E. cbn [fst snd] in *.
  assert (Hlen : length (fnames (l_fs st')) =
                 (length (fnames (l_fs st)) + if spills c (script_of scripts k) then 1 else 0)%nat).
  { rewrite N1, app_length, N2. unfold spills. destruct (_ <? _); lia. }
  rewrite <- A1. destruct oc as [v|].
  - rewrite Hlen. reflexivity.
  - pose proof (pre_of_post rq hp0 body names0 Hu Hh st' A3) as Hn. cbn zeta in Hn.
    destruct (copyRequest (l_heap st') rq (blen body)) as [hp' o'].
    rewrite (IH (k + 1) _ o' Hn). cbn [l_fs]. rewrite Hlen. reflexivity.
Qed.

Lemma serve_tmps_spec c fs hp rq body scripts :
  0 <= memReq c -> 0 <= memResp c -> fs_wf fs -> (q_url rq < length hp)%nat -> (q_hdr rq < length hp)%nat ->
  ~ over_request_limit c rq body ->
  serve_tmps c fs hp rq body scripts = tmps_spec c (q_method rq) scripts 11 1 (length (fnames fs)).
Proof. intros Hm Hmr Hwf Hu Hh Hno. unfold serve_tmps, checkLimit.
  assert (Hc : (if maxReq c <=? 0 then false else maxReq c <? q_cl rq) = false).
  { destruct (Z.leb_spec (maxReq c) 0); [reflexivity|]. destruct (Z.ltb_spec (maxReq c) (q_cl rq)); [|reflexivity].
    exfalso; apply Hno; split; [lia|left; lia]. }
  rewrite Hc.
  pose proof (mb_new_ok (memReq c) (maxReq c) body fs Hm) as N.
  pose proof (mb_new_fs (memReq c) (maxReq c) body fs Hwf) as [F1 F2].
  destruct (mb_new (memReq c) (maxReq c) body fs) as [fs1 [e|rd]]; cbn [fst snd] in *.
  { exfalso. destruct N as (_ & N1 & N2). apply Hno; split; [lia|right; lia]. }
  destruct N as (_ & N1 & N2 & N3 & N4 & _).
  rewrite N3.
  pose proof (copyRequest_spec hp rq (blen body) Hu Hh) as C.
  destruct (copyRequest hp rq (blen body)) as [hp1 o].
  destruct C as (C1 & C2 & C3 & C4 & C5 & C6 & C7 & C8 & C9).
  set (bodyv := if blen body =? 0 then None else Some rd).
  set (st0 := {| l_fs := fs1; l_heap := hp1; l_body := bodyv; l_defers := []; l_invs := [] |}).
  assert (Hpre : pre_inv rq hp body (fnames fs) st0 o).
  { constructor; cbn [st0 l_fs l_heap l_body l_defers l_invs]; auto; try lia.
    - constructor; cbn [st0 l_fs l_heap l_body l_defers l_invs]; auto; try lia.
      + unfold bodyv. destruct (Z.eqb_spec (blen body) 0) as [E|E]; [apply blen_zero, E|auto].
      + intros fs' Hf. cbn. rewrite Hf. exact F2.
    - unfold bodyv. destruct (blen body =? 0); auto. }
  rewrite (attempts_tmps_spec c rq hp body (fnames fs) scripts Hu Hh Hmr 11 1 st0 o Hpre).
  cbn [st0 l_fs]. rewrite F2. reflexivity.
Qed.

(* a request over its limit never reaches the handler: no count at all *)
Lemma serve_tmps_rejected c fs hp rq body scripts : 0 <= memReq c ->
  over_request_limit c rq body -> serve_tmps c fs hp rq body scripts = [].
Proof. intros Hm [Hp Ho]. unfold serve_tmps, checkLimit.
  destruct (Z.leb_spec (maxReq c) 0); [lia|].
  destruct (Z.ltb_spec (maxReq c) (q_cl rq)); [reflexivity|].
  pose proof (mb_new_ok (memReq c) (maxReq c) body fs Hm) as N.
  destruct (mb_new (memReq c) (maxReq c) body fs) as [fs1 [e|rd]]; cbn [fst snd] in *; [reflexivity|].
  exfalso. destruct N as (N0 & _). lia.
Qed.

(* in terms of the handler's script: within the response limit (or unlimited) and without hijack, the accepted bytes
   are all the bytes written *)
Lemma spills_wbytes c evs : ~ In EHijack evs -> maxResp c <= 0 \/ blen (wbytes evs) <= maxResp c ->
  spills c evs = (eff_mem (memResp c) <? blen (wbytes evs)).
Proof. intros Hn Hl. unfold spills, attempt_abs.
  destruct (bw_run_within (maxResp c) evs abs0 Hn eq_refl) as [_ E]; [cbn [abs0 a_data]; rewrite blen_nil; lia|].
  rewrite E. reflexivity. Qed.
