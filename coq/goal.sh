#!/bin/bash
# usage: goal.sh File.v LINE  -> prints the goals after LINE lines of File.v
f=$1; n=$2
tmp=$(dirname $f)/Tmp_goal_$$.v
head -n $n $f > $tmp
echo "Show. " >> $tmp
cd /verif/coq && timeout 120 coqc -Q . Oxy $tmp 2>&1 | grep -v "^Error: There are pending proofs" | tail -${3:-40}
rm -f $tmp $(dirname $f)/Tmp_goal_$$.* $(dirname $f)/.Tmp_goal_$$.aux
