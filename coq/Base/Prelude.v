(* Shared prelude: imports, tactics and small list/arith lemmas used by every model. *)
From Coq Require Export ZArith List Bool Lia Arith.
Export ListNotations.

(* Decoding helpers for the correspondence harness: every model exposes
   run : list Z (config) -> list (list Z) (ops) -> list (list Z) (observables per op). *)
Definition zhd (l : list Z) : Z := match l with x :: _ => x | [] => 0%Z end.
Definition znth (l : list Z) (n : nat) : Z := nth n l 0%Z.
Definition zbool (b : bool) : Z := if b then 1%Z else 0%Z.

(* A generic driver: fold a step function over ops, collecting outputs. *)
Section Run.
  Context {S O Out : Type}.
  Variable step : S -> O -> S * Out.
  Fixpoint run_from (s : S) (ops : list O) : list Out :=
    match ops with
    | [] => []
    | o :: r => let '(s', out) := step s o in out :: run_from s' r
    end.
  Fixpoint exec (s : S) (ops : list O) : S :=
    match ops with
    | [] => s
    | o :: r => exec (fst (step s o)) r
    end.
  Lemma exec_app s a b : exec s (a ++ b) = exec (exec s a) b.
  Proof. revert s; induction a as [|o a IH]; intros s; cbn; [reflexivity|apply IH]. Qed.
  Lemma run_from_length s ops : length (run_from s ops) = length ops.
  Proof. revert s; induction ops as [|o r IH]; intros s; cbn; [reflexivity|].
    destruct (step s o); cbn; f_equal; apply IH. Qed.
  Lemma run_from_app s a b : run_from s (a ++ b) = run_from s a ++ run_from (exec s a) b.
  Proof. revert s; induction a as [|o a IH]; intros s; cbn; [reflexivity|].
    destruct (step s o) as [s' out] eqn:E; cbn. f_equal. apply IH. Qed.
  (* invariants lift to every reachable state *)
  Lemma exec_inv (P : S -> Prop) :
    (forall s o, P s -> P (fst (step s o))) -> forall ops s, P s -> P (exec s ops).
  Proof. intros H ops; induction ops as [|o r IH]; intros s Hs; cbn; [exact Hs|]. apply IH, H, Hs. Qed.
End Run.

Ltac inv H := inversion H; subst; clear H.
Ltac destr_if := match goal with |- context [if ?c then _ else _] => destruct c eqn:? end.
Ltac destr_if_in H := match type of H with context [if ?c then _ else _] => destruct c eqn:? end.
